#!/usr/bin/env bash
# tools/seed-worktree.sh <name> – scratch worktree of /repo HEAD under /tmp/sw/<name> for a seeded-change sub-agent,
# with a warm copy of the base build output (/tmp/sw/base/target, built once by hand).
set -eu
name="$1"; wt=/tmp/sw/$name
git -C /repo worktree add -f --detach "$wt" HEAD >/dev/null 2>&1
[ -d /tmp/sw/base/target ] && cp -a /tmp/sw/base/target "$wt/target"
mkdir -p "$wt/SEEDED"
echo "$wt"
