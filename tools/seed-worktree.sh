#!/usr/bin/env bash
# tools/seed-worktree.sh <name> – scratch worktree of /repo HEAD under /tmp/sw/<name> for a seeded-change sub-agent,
# with a warm build directory: hard links to /tmp/sw/base/target (built once by hand). Only the dependencies are reused
# (the package path differs, so cargo rebuilds iroh-docs itself under a new metadata hash and never rewrites the shared
# files); a full copy of the 8 GB directory took 4-5 minutes per worktree on this disk.
set -eu
name="$1"; wt=/tmp/sw/$name
[ -d "$wt" ] || git -C /repo worktree add -f --detach "$wt" HEAD >/dev/null 2>&1
if [ -d /tmp/sw/base/target ] && [ ! -d "$wt/target" ]; then
  cp -al /tmp/sw/base/target "$wt/target"
  rm -rf "$wt/target/debug/incremental"
  # a hard-linked lock file would serialise the builds of all worktrees
  rm -f "$wt/target/debug/.cargo-lock" "$wt/target/.cargo-lock"
fi
mkdir -p "$wt/SEEDED"
echo "$wt"
