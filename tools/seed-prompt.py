#!/usr/bin/env python3
"""tools/seed-prompt.py <ID> <suffix> [taken...] – print the prompt for a seeded-change sub-agent (property text only)."""
import json, sys
pid, suffix = sys.argv[1], sys.argv[2]
taken = sys.argv[3:]
import os
everything = open('/tmp/sw/all-mechanisms.txt').read() if os.path.exists('/tmp/sw/all-mechanisms.txt') and suffix not in ('a','b','c') else ""
p = next(json.loads(l) for l in open('/verif/properties.jsonl') if json.loads(l)['id'] == pid)
wt = f"/tmp/sw/{pid}-{suffix}"
anch = p['anchors']
mech = "\n".join(f"  - {m['name']}: {m['where']}" for m in anch.get('mechanism', []))
print(f"""You are helping to evaluate a verification effort for the Rust crate iroh-docs (n0-computer/iroh-docs): signed multi-author key-value replicas, synchronized by range-based set reconciliation, redb-backed store, gossip-driven live sync engine. Your job is to play the role of a developer who introduces a *subtle regression*.

Your private scratch copy of the repository is the git worktree {wt} (work ONLY there; never read or write /repo or /verif; there is no network). A warm build directory exists: always run cargo as
  cd {wt} && CARGO_TARGET_DIR={wt}/target CARGO_NET_OFFLINE=true cargo <...> --offline
The crate has an optional cargo feature `verif-hooks` (test-only exports in src/verif.rs and a few cfg(feature = "verif-hooks") items: a clock override, exports of the private net codec / run_alice / BobState, of the live actor's handlers, etc.). Leave code guarded by that feature alone, but your demonstration may use it (run it with --features verif-hooks) if the public API is not enough.

THE PROPERTY that should hold for iroh-docs:

  {pid}: {p['title']}
  Statement: {p['statement']}
  Quantified over: {p['quantifier']['text']}
  Code it is anchored in: {', '.join(anch['files'])}
{mech}

YOUR TASK: make a change to the source code under {wt}/src that BREAKS this property, such that
  1. the crate still compiles, with and without `--features verif-hooks`, without new warnings that would stand out;
  2. the whole existing test suite still passes, unedited:  cargo test --offline --lib --test client --test gc --test sync   (92 tests; a couple of network tests are occasionally flaky under load - re-run once before concluding they fail);
  3. the change is REALISTIC - something that could come out of a plausible refactoring, optimisation, clean-up or well-meant bug fix, a few lines, nothing that looks like sabotage, no special-casing of magic values;
  4. it does NOT show under ordinary use. It must need something specific to manifest: a particular interleaving or arrival order, a crash or fault at a particular point, a multi-step sequence of operations, an unusual (but legal) input, a particular configuration, or two cooperating code sites that each look fine alone. Prefer a part of the property's statement or quantifier that is easy to overlook (read the whole statement: every clause is fair game), and prefer mechanisms other than the most obvious one.
{('  5. it must be DIFFERENT in mechanism from these changes, which were already made by others: ' + '; '.join(taken)) if taken else ''}

{("  6. it must also differ in mechanism from every change in this list - they were all made by others already, for this or other properties of the same crate (several people independently came up with the same few ideas, e.g. aborting the shared write transaction, caches that are not invalidated on removal, bookkeeping moved out of the actor's path; we need NEW ideas, in parts of the code the list does not touch yet):" + chr(10) + everything) if everything else ''}

Then write a DEMONSTRATION: an integration test file {wt}/tests/seeded_demo.rs (one or more #[test]/#[tokio::test] functions; it may use dev-dependencies already in Cargo.toml: tokio, tempfile, rand, anyhow, etc. - nothing can be downloaded) that FAILS with your change and PASSES without it (check both; to remove the change save it with `git diff -- src > SEEDED/patch.diff` and run `git checkout -- src`, to restore it `git apply SEEDED/patch.diff`; do NOT use `git stash`: the stash is shared with other worktrees of this repository and other people use it concurrently). Run it with  cargo test --offline --test seeded_demo  (add --features verif-hooks if you use the hooks). The demonstration must fail because the property's statement is violated (assert on observable behaviour), not because of an implementation detail.

DELIVERABLES, all under {wt}/SEEDED/ :
  - patch.diff      : output of `git -C {wt} diff -- src` (source change only, applies with `git apply` to a clean tree)
  - seeded_demo.rs  : copy of tests/seeded_demo.rs
  - NOTES.md        : what you changed, why it breaks the property (which clause), exactly what is needed for it to manifest, why ordinary use/tests do not show it, and the exact commands you ran with their outcomes (suite pass count with the change; demo fail with / pass without; whether the demo needs --features verif-hooks).
Leave the worktree with the change applied. Do not commit. In your final answer give a 5-line summary (the change, the trigger, the commands' outcomes).

Read the relevant code first; take the time to find something genuinely subtle rather than the first thing that works. Keep build output inside {wt}/target only.""")
