#!/usr/bin/env bash
# tools/verify-seeded.sh <worktree> [features]  – confirm a seeded change independently:
#   with the patch: crate builds, existing tests pass, demo FAILS; without the patch: demo PASSES.
wt="$1"; feat="${2:-}"
cd "$wt" || exit 2
export CARGO_TARGET_DIR="$wt/target" CARGO_NET_OFFLINE=true
F=""; [ -n "$feat" ] && F="--features $feat"
git checkout -q -- src; git apply SEEDED/patch.diff || { echo "RESULT patch-does-not-apply"; exit 1; }
cargo build --offline >/dev/null 2>&1 && cargo build --offline --features verif-hooks >/dev/null 2>&1 || { echo "RESULT build-fails"; exit 1; }
cargo test --offline $F --test seeded_demo >/tmp/vs-demo-with.$$ 2>&1; with=$?
cargo test --offline --lib --test client --test gc --test sync >/tmp/vs-suite.$$ 2>&1; suite=$?
if [ $suite -ne 0 ]; then  # network tests are occasionally flaky under load: one re-run
  grep -E "^test .* FAILED" /tmp/vs-suite.$$ | head -5
  cargo test --offline --lib --test client --test gc --test sync >/tmp/vs-suite.$$ 2>&1; suite=$?
fi
passed=$(grep -E "^test result" /tmp/vs-suite.$$ | awk '{s+=$4} END {print s}')
git checkout -q -- src
cargo test --offline $F --test seeded_demo >/tmp/vs-demo-without.$$ 2>&1; without=$?
git apply SEEDED/patch.diff
echo "RESULT wt=$wt demo_with_patch_rc=$with (want !=0) suite_rc=$suite passed=$passed (want 0/92) demo_without_patch_rc=$without (want 0)"
rm -f /tmp/vs-*.$$
