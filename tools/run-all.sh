#!/usr/bin/env bash
# tools/run-all.sh [quick|thorough] – run every claimed check once, print one line per check, validate evidence.
cd "$(dirname "$0")/.." || exit 2
tier="${1:-quick}"
./check --build || exit 2
fail=0
for id in $(python3 -c "import json;print(' '.join(c['property_id'] for c in json.load(open('MANIFEST.json'))['checks']))"); do
  start=$(date +%s.%N)
  out=$(./check "$id" "$tier" 2>&1); rc=$?
  end=$(date +%s.%N)
  printf "%s rc=%d %.1fs  %s\n" "$id" "$rc" "$(echo "$end - $start" | bc)" "$(echo "$out" | head -1)"
  echo "$out" | grep -E "^(VIOLATION|KNOWN-FINDING|INCONCLUSIVE)" 
  [ $rc -ne 0 ] && fail=1
done
python3-vt tools/validate.py | grep -v "^ok"
exit $fail
