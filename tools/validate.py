#!/usr/bin/env python3-vt
"""Validate MANIFEST.json and every evidence file against the schemas in /root/.vp."""
import json, sys, glob, jsonschema
ok = True
def v(path, schema):
    global ok
    try:
        jsonschema.validate(json.load(open(path)), json.load(open(schema)))
        print("ok  ", path)
    except Exception as e:
        ok = False
        print("FAIL", path, str(e)[:300])
v('/verif/MANIFEST.json', '/root/.vp/MANIFEST.schema.json')
for f in sorted(glob.glob('/verif/evidence/*.json')):
    v(f, '/root/.vp/EVIDENCE.schema.json')
m = json.load(open('/verif/MANIFEST.json'))
ids = [json.loads(l)['id'] for l in open('/verif/properties.jsonl')]
claimed = {c['property_id'] for c in m['checks']}
na = {c['property_id'] for c in m.get('not_applicable', [])}
for i in ids:
    if (i in claimed) == (i in na):
        ok = False
        print("FAIL property", i, "must be exactly one of claimed / not_applicable")
sys.exit(0 if ok else 1)
