#!/usr/bin/env bash
# tools/process-seeded.sh <name> [features]  – confirm a sub-agent's seeded change in its scratch worktree /tmp/sw/<name>
# (verify-seeded.sh), copy its deliverables to /verif/seeded/<name>/ and remove the worktree with its build output.
name="$1"; feat="${2:-}"; wt=/tmp/sw/$name
[ -f "$wt/SEEDED/patch.diff" ] || { echo "no deliverables in $wt"; exit 2; }
# the demonstration must live in tests/seeded_demo.rs
[ -f "$wt/tests/seeded_demo.rs" ] || cp "$wt/SEEDED/seeded_demo.rs" "$wt/tests/seeded_demo.rs"
out=$(/verif/tools/verify-seeded.sh "$wt" "$feat" | tail -1); echo "$out"
mkdir -p /verif/seeded/$name
cp "$wt/SEEDED/patch.diff" "$wt/SEEDED/NOTES.md" /verif/seeded/$name/ 2>/dev/null
cp "$wt/tests/seeded_demo.rs" /verif/seeded/$name/
echo "$out" > /verif/seeded/$name/verify.txt
git -C /repo worktree remove --force "$wt"; rm -rf "$wt"
git -C /repo apply --check /verif/seeded/$name/patch.diff && echo "patch applies to /repo"
