#!/usr/bin/env bash
# tools/suite-with-patch.sh <patch> – run the existing suite on the base scratch worktree (/tmp/sw/base) with the patch applied; lists failures.
cd /tmp/sw/base || exit 2
export CARGO_TARGET_DIR=/tmp/sw/base/target CARGO_NET_OFFLINE=true
git checkout -q -- . ; git apply "$1" || exit 2
cargo test --offline --lib --test client --test gc --test sync 2>&1 | grep -E "^test result|FAILED|failed" | head -20
git checkout -q -- .
