#!/usr/bin/env python3
"""Hand-written sensitivity mutants (from the 'Mutants' lists of DESIGN.md §4), run in isolation.

Works on a scratch copy of /repo and a scratch copy of the harness under /tmp/mut (removed at the end unless
--keep), so /repo, /verif/evidence and /verif/failures are never touched. For every mutant: apply a textual
edit to the scratch repo, rebuild the scratch harness, run the listed checks' quick tier with a reduced wall
budget, record which check reported a VIOLATION. Results: /verif/seeded/hand-mutants.md

usage: tools/mutants.py [name-substring ...]
"""
import os, shutil, subprocess, sys, json, time

ROOT = "/tmp/mut"
REPO = f"{ROOT}/repo"
HARN = f"{ROOT}/harness"
OUT = f"{ROOT}/verif"

M = [
 # name, file, old, new, checks
 ("get_range-wraparound-drops-second-half", "src/store/fs.rs", "iter.chain(Some(iter2).into_iter().flatten())", "{ let _ = iter2; chain_none(iter) }", ["C08", "C01"]),
 ("get_first-returns-default", "src/store/fs.rs", "        let id = RecordIdentifier::new(namespace_id, author_id, key);\n        Ok(id)", "        let _ = RecordIdentifier::new(namespace_id, author_id, key);\n        Ok(RecordIdentifier::default())", ["C08", "C01"]),
 ("put-admission-le-to-lt", "src/ranger.rs", "if entry.value() <= prefix_entry.value() {", "if entry.value() < prefix_entry.value() {", ["C02", "C08"]),
 ("put-prune-ge-to-gt", "src/ranger.rs", "|value| entry.value() >= value", "|value| entry.value() > value", ["C02", "C08"]),
 ("parents-stop-one-byte-early", "src/store/fs.rs", "        if key.pop().is_none() {\n            break;\n        }", "        if key.len() <= 1 {\n            break;\n        }\n        key.pop();", ["C02", "C08"]),
 ("validate-drop-namespace-check", "src/sync.rs", "    if entry.namespace() != expected_namespace {\n        return Err(ValidationFailure::InvalidNamespace);\n    }", "    let _ = expected_namespace;", ["C03"]),
 ("validate-future-bound-gt-to-ge", "src/sync.rs", "if entry.timestamp() > now + MAX_TIMESTAMP_FUTURE_SHIFT {", "if entry.timestamp() >= now + MAX_TIMESTAMP_FUTURE_SHIFT {", ["C03"]),
 ("validate-empty-skipped-on-direct-path", "src/sync.rs", "        self.info.ensure_open()?;\n        entry.validate_empty()?;", "        self.info.ensure_open()?;", ["C03"]),
 ("query-offset-lt-to-le", "src/store/fs/query.rs", "if self.offset < self.query.offset() && matches!(next, Some(Ok(_))) {", "if self.offset <= self.query.offset() && self.query.offset() > 0 && matches!(next, Some(Ok(_))) {", ["C05"]),
 ("query-desc-uses-next", "src/store/fs/ranges.rs", "SortDirection::Desc => self.next_back(),", "SortDirection::Desc => self.next(),", ["C05"]),
 ("bykey-exact-upper-bound-fe", "src/store/fs/bounds.rs", "let end = (ns.to_bytes(), key.clone(), [255u8; 32]);", "let end = (ns.to_bytes(), key.clone(), [254u8; 32]);", ["C05"]),
 ("capability-merge-replaces", "src/sync.rs", "        if matches!(self, Capability::Read(_)) && matches!(other, Capability::Write(_)) {", "        if !matches!(other, Capability::Read(_)) || matches!(self, Capability::Write(_)) {", ["C07"]),
 ("import-namespace-stores-incoming", "src/store/fs.rs", "                        let mut existing = parse_capability(existing.value())?;\n                        let outcome = if existing.merge(capability)? {\n                            ImportNamespaceOutcome::Upgraded\n                        } else {\n                            ImportNamespaceOutcome::NoChange\n                        };\n                        (existing, outcome)", "                        let mut existing = parse_capability(existing.value())?;\n                        let incoming = capability.clone();\n                        let outcome = if existing.merge(capability)? {\n                            ImportNamespaceOutcome::Upgraded\n                        } else {\n                            ImportNamespaceOutcome::NoChange\n                        };\n                        (incoming, outcome)", ["C07"]),
 ("actor-skips-merge-on-upgrade", "src/actor.rs", "                if let ImportNamespaceOutcome::Upgraded = outcome {", "                if let ImportNamespaceOutcome::Inserted = outcome {", ["C07"]),
 ("codec-frame-len-lt-to-le", "src/net/codec.rs", "        if src.len() < 4 + frame_len {", "        if src.len() <= 4 + frame_len {", ["C09", "C10"]),
 ("codec-drop-max-size-check", "src/net/codec.rs", "        ensure!(\n            frame_len <= MAX_MESSAGE_SIZE,\n            \"received message that is too large: {}\",\n            frame_len\n        );", "", ["C09"]),
 ("ticket-accepts-empty-nodes", "src/ticket.rs", "        if res.nodes.is_empty() {", "        if res.nodes.len() > 1_000_000 {", ["C09"]),
 ("tie-break-both-sides-accept", "src/engine/state.rs", "    if self_node_id.as_bytes() > other_node_id.as_bytes() {", "    if self_node_id.as_bytes() != other_node_id.as_bytes() {", ["C11"]),
 ("tie-break-both-sides-decline", "src/engine/state.rs", "    if self_node_id.as_bytes() > other_node_id.as_bytes() {", "    if self_node_id.as_bytes() == other_node_id.as_bytes() {", ["C11"]),
 ("accept-while-running-accept", "src/engine/state.rs", "                Origin::Accept => AcceptOutcome::Reject(AbortReason::AlreadySyncing),", "                Origin::Accept => AcceptOutcome::Allow,", ["C11"]),
 ("connect-declined-frees-any-state", "src/engine/state.rs", "            SyncState::Running {\n                origin: Origin::Connect(_),\n                ..\n            } => {\n                self.state = SyncState::Idle;\n                self.resync_requested\n            }", "            SyncState::Running { .. } => {\n                self.state = SyncState::Idle;\n                self.resync_requested\n            }", ["C11"]),
 ("finish-keeps-running-on-error", "src/engine/state.rs", "        self.last_sync = Some((Instant::now(), result));\n        self.state = SyncState::Idle;", "        let failed = result.is_err();\n        self.last_sync = Some((Instant::now(), result));\n        if !failed {\n            self.state = SyncState::Idle;\n        }", ["C11"]),
 ("resync-flag-never-cleared", "src/engine/state.rs", "        };\n        self.resync_requested = false;\n    }", "        };\n    }", ["C11"]),
 ("event-also-on-not-inserted", "src/ranger.rs", "                    if let InsertOutcome::Inserted { .. } = outcome {\n                        on_insert_cb(self, entry, content_status).await;\n                    }", "                    let _ = outcome;\n                    on_insert_cb(self, entry, content_status).await;", ["C12", "C03"]),
 ("should-download-negated-nothing-except", "src/store.rs", "                patterns.iter().any(|pattern| pattern.matches(key))", "                !patterns.iter().any(|pattern| pattern.matches(key)) && !patterns.is_empty()", ["C15", "C12"]),
 ("heads-insert-max-to-min", "src/heads.rs", ".and_modify(|t| *t = (*t).max(timestamp))", ".and_modify(|t| *t = (*t).min(timestamp))", ["C13"]),
 ("heads-has-news-gt-to-ge", "src/heads.rs", ".map(|ts_theirs| *ts_ours > ts_theirs)", ".map(|ts_theirs| *ts_ours >= ts_theirs)", ["C13"]),
 ("heads-encode-oldest-first", "src/heads.rs", "for (ts, author) in by_timestamp.into_iter().rev() {", "for (ts, author) in by_timestamp.into_iter() {", ["C13"]),
 ("heads-entry-put-unconditional", "src/store/fs.rs", "            if current.is_none_or(|current| e.timestamp() >= current) {", "            if current.is_none_or(|current| e.timestamp() >= current || true) {", ["C13", "C02"]),
 ("actor-reopen-does-not-count", "src/actor.rs", "                state.handles += 1;\n                state.sync = state.sync || opts.sync;", "                state.sync = state.sync || opts.sync;", ["C14"]),
 ("actor-sync-not-sticky", "src/actor.rs", "                state.sync = state.sync || opts.sync;", "                state.sync = opts.sync;", ["C14"]),
 ("actor-replica-if-syncing-ignores-flag", "src/actor.rs", "        anyhow::ensure!(state.sync, \"sync is not enabled for replica\");", "", ["C14"]),
 ("actor-get-exact-without-open-guard", "src/actor.rs", "            } => send_reply_with(reply, self, move |this| {\n                this.states.ensure_open(&namespace)?;\n                this.store.get_exact(namespace, author, key, include_empty)", "            } => send_reply_with(reply, self, move |this| {\n                this.store.get_exact(namespace, author, key, include_empty)", ["C14"]),
 ("policy-everything-except-all-to-any", "src/store.rs", "                patterns.iter().all(|pattern| !pattern.matches(key))", "                patterns.iter().any(|pattern| !pattern.matches(key)) || patterns.is_empty()", ["C15"]),
 ("filter-prefix-test-reversed", "src/store.rs", "            FilterKind::Prefix(prefix) => key.as_ref().starts_with(prefix),", "            FilterKind::Prefix(prefix) => prefix.starts_with(key.as_ref()),", ["C15"]),
 ("remove-replica-keeps-peers", "src/store/fs.rs", "            tables.namespace_peers.remove_all(namespace.as_bytes())?;\n", "", ["C16"]),
 ("remove-replica-open-guard-dropped", "src/store/fs.rs", "        if self.open_replicas.contains(namespace) {\n            return Err(anyhow!(\"replica is not closed\"));\n        }", "", ["C16"]),
 ("remove-replica-bykey-not-cleared", "src/store/fs.rs", "            let _ = tables\n                .records_by_key\n                .retain_in(bounds.as_ref(), |_k, _v| false);", "            let _ = &bounds;", ["C16"]),
 ("peers-evict-newest", "src/store/fs.rs", "                                        .remove(namespace, (oldest_nanos, oldest_peer))?;\n                                }\n                            }", "                                        .remove(namespace, (nanos, peer))?;\n                                }\n                            }", ["C17"]),
 ("peers-len-starts-at-zero", "src/store/fs.rs", "                        let mut len = 1;", "                        let mut len = 0;", ["C17"]),
 ("crowd-remove-prefix-in-chunks-of-1000", "src/store/fs.rs", "            let count = iter.count();\n            Ok(count)", "            let count = iter.take(1000).count();\n            Ok(count)", ["C02", "C01"]),
 ("crowd-at-most-64-subscribers-kept", "src/sync.rs", "            .into_iter()\n            .flatten()\n            .collect();\n    }\n    pub fn len", "            .into_iter()\n            .flatten()\n            .take(64)\n            .collect();\n    }\n    pub fn len", ["C12"]),
 ("session-heads-received-first-entry-only", "src/sync.rs", "        for (entry, _content_status) in message.values() {\n            state", "        for (entry, _content_status) in message.values().take(1) {\n            state", ["C13"]),
 ("live-report-dials-without-news", "src/engine/live.rs", "            Ok(None) => {\n                debug!(\"no news reported: nothing to do\");\n            }", "            Ok(None) => {\n                self.sync_with_peer(report.namespace, from, SyncReason::SyncReport);\n            }", ["C13"]),
 ("live-report-after-every-session", "src/engine/live.rs", "                if details.outcome.num_recv > 0 {", "                if details.outcome.num_recv + details.outcome.num_sent > 0 || true {", ["C13"]),
 ("live-report-unbounded", "src/engine/live.rs", "                        .encode(Some(self.gossip.max_message_size()))", "                        .encode(None)", ["C13"]),
 ("migration-001-keeps-smallest", "src/store/fs/migrations.rs", "                if timestamp >= e.0 {", "                if timestamp < e.0 {", ["C18"]),
 ("migration-004-wrong-column-order", "src/store/fs/migrations.rs", "        let id = (namespace, key, author);\n        by_key_table.insert(id, ())?;", "        let id = (author, key, namespace);\n        by_key_table.insert(id, ())?;", ["C18"]),
 ("fix-d1-reverted-parents-skip-markers", "src/store/fs.rs", "let entry = get_exact(table, namespace, author, &key, true);", "let entry = get_exact(table, namespace, author, &key, false);", ["C02", "C01", "C04", "C08"]),
 ("drop-without-flush", "src/store/fs.rs", "        if let Err(err) = self.flush() {\n            warn!(\"failed to trigger final flush: {:?}\", err);\n        }", "        let _ = &self.db;", ["C06", "C02"]),
 ("entry-put-in-own-transaction", "src/store/fs.rs", "        // Same transaction as the preceding prefix removal of `put`.\n        self.store.as_mut().modify_same_transaction(|tables| {", "        self.store.as_mut().modify(|tables| {", ["C06"]),
 ("record-encode-swaps-len-and-hash", "src/sync.rs", "        out.extend_from_slice(&self.len.to_be_bytes());\n        out.extend_from_slice(self.hash.as_ref());", "        out.extend_from_slice(self.hash.as_ref());\n        out.extend_from_slice(&self.len.to_be_bytes());", ["C09"]),
 ("alice-unwraps-frame", "src/net/codec.rs", "        let msg = msg.map_err(ConnectError::sync)?;\n        match msg {\n            Message::Init { .. } => {", "        let msg = msg.unwrap();\n        match msg {\n            Message::Init { .. } => {", ["C10"]),
 ("unsubscribe-removes-first", "src/sync.rs", "        self.0.retain(|s| !same_channel(s, sender));", "        let _ = sender;\n        if !self.0.is_empty() {\n            self.0.remove(0);\n        }", ["C12", "C14"]),
 ("local-insert-sends-no-event", "src/sync.rs", "            InsertOrigin::Local => Event::LocalInsert { namespace, entry },", "            InsertOrigin::Local => return Ok(removed_count),", ["C12"]),
 ("bob-processes-before-accept-decision", None, None, None, []),
]

def sh(cmd, **kw):
    return subprocess.run(cmd, shell=True, text=True, capture_output=True, **kw)

def main():
    sel = sys.argv[1:]
    keep = "--keep" in sel
    sel = [s for s in sel if not s.startswith("--")]
    if os.path.exists(ROOT):
        shutil.rmtree(ROOT)
    os.makedirs(ROOT)
    sh(f"git -C /repo worktree prune; cp -a /repo {REPO}.tmp && rm -rf {REPO}.tmp/target {REPO}.tmp/.git && mv {REPO}.tmp {REPO}")
    sh(f"mkdir -p {HARN} && cp -a /verif/harness/src /verif/harness/Cargo.toml /verif/harness/Cargo.lock /verif/harness/.cargo {HARN}/")
    sh(f"sed -i 's#path = \"/repo\"#path = \"{REPO}\"#' {HARN}/Cargo.toml && sed -i 's#/verif/harness/target#{HARN}/target#' {HARN}/.cargo/config.toml")
    # reuse the compiled dependencies of the real harness
    sh(f"cp -a /verif/harness/target {HARN}/target")
    os.makedirs(f"{OUT}", exist_ok=True)
    sh(f"cp -a /verif/replays {OUT}/replays; cp /verif/KNOWN_FINDINGS.txt {OUT}/")
    env = dict(os.environ, DV_VERIF_DIR=OUT, CARGO_NET_OFFLINE="true")
    rows = []
    for name, f, old, new, checks in M:
        if f is None:
            continue
        if sel and not any(s in name for s in sel):
            continue
        path = f"{REPO}/{f}"
        src = open(path).read()
        if src.count(old) != 1:
            rows.append((name, f, "EDIT-DOES-NOT-APPLY (%d matches)" % src.count(old), {}))
            print(name, "edit does not apply", src.count(old), flush=True)
            continue
        open(path, "w").write(src.replace(old, new))
        t0 = time.time()
        b = sh(f"cd {HARN} && cargo build --release --offline 2>&1 | tail -20", env=env)
        res = {}
        if "error" in b.stdout and "Finished" not in b.stdout:
            rows.append((name, f, "DOES-NOT-COMPILE", {}))
            print(name, "does not compile\n", b.stdout[-600:], flush=True)
        else:
            for c in checks:
                sh(f"rm -rf {OUT}/failures")
                r = sh(f"timeout 600 {HARN}/target/release/dv run {c} --tier quick", env=env)
                sig = [l.strip() for l in r.stdout.splitlines() if l.strip().startswith("signature:")]
                first = [l for l in r.stdout.splitlines() if " quick:" in l]
                res[c] = ("CAUGHT " + (sig[0] if sig else "") if "VIOLATION" in r.stdout else ("inconclusive rc=%d" % r.returncode if r.returncode not in (0, 1) else "missed")) + "  [" + (first[0].split(":",1)[1].strip()[:60] if first else "") + "]"
            rows.append((name, f, "ok", res))
            print(name, res, "%.0fs" % (time.time() - t0), flush=True)
        open(path, "w").write(src)
    with open("/verif/seeded/hand-mutants.md", "a" if sel else "w") as out:
        out.write("" if sel else "# Hand-written sensitivity mutants (tools/mutants.py)\n\nEach edit is applied to a scratch copy of /repo, the scratch harness is rebuilt and the listed checks' quick tier is run.\nThese are probes of the checks' sensitivity, not confirmed 'seeded changes': the repository's own test suite was not run for them\n(several are certainly killed by it too).\n\n| mutant | file | result per check |\n|---|---|---|\n")
        for name, f, st, res in rows:
            cell = st if st != "ok" else "<br>".join(f"{c}: {v}" for c, v in res.items())
            out.write(f"| {name} | {f} | {cell} |\n")
    if not keep:
        shutil.rmtree(ROOT)

main()
