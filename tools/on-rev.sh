#!/usr/bin/env bash
# tools/on-rev.sh <rev> <command...>  – temporarily put /repo/src (and Cargo.toml) at <rev>, run the command, restore HEAD.
# Used only for sensitivity experiments (e.g. the hooks-only tree 78e6fa5 = all defects present).
set -u
rev="$1"; shift
git -C /repo diff --quiet || { echo "/repo has uncommitted changes" >&2; exit 2; }
git -C /repo checkout -q "$rev" -- src Cargo.toml
"$@"; rc=$?
git -C /repo checkout -q HEAD -- src Cargo.toml
exit $rc
