#!/usr/bin/env bash
# tools/on-rev.sh <rev> <command...>  – temporarily put /repo/src (and Cargo.toml) at <rev>, run the command, restore HEAD.
# Used only for sensitivity experiments (e.g. the hooks-only tree 78e6fa5+b21e23e = all defects present, all hooks).
# The evidence directory and failures directory are preserved; the harness is rebuilt against HEAD afterwards.
set -u
rev="$1"; shift
git -C /repo diff --quiet || { echo "/repo has uncommitted changes" >&2; exit 2; }
save=$(mktemp -d); cp -a /verif/evidence "$save/evidence" 2>/dev/null
# "<rev>+<commit>+<commit>": check out <rev>, then apply the diffs of the listed (hook) commits on top
base="${rev%%+*}"; extra="${rev#"$base"}"
git -C /repo checkout -q "$base" -- src Cargo.toml
for c in ${extra//+/ }; do git -C /repo show "$c" | git -C /repo apply || { echo "cannot apply $c" >&2; git -C /repo checkout -q HEAD -- src Cargo.toml; exit 2; }; done
"$@"; rc=$?
git -C /repo checkout -q HEAD -- src Cargo.toml
rm -rf /verif/evidence; [ -d "$save/evidence" ] && cp -a "$save/evidence" /verif/evidence; rm -rf "$save"
/verif/check --build
exit $rc
