#!/usr/bin/env python3
"""tools/meta.py <name> <property> <change> <needs> <checks_run> – write seeded/<name>/meta.json"""
import json, sys
name, prop, change, needs, checks = sys.argv[1:6]
ver = open(f'/verif/seeded/{name}/verify.txt').read().strip()
json.dump({"breaks_property": prop, "change": change, "needs_to_manifest": needs,
  "confirmed": "tools/verify-seeded.sh in the sub-agent's scratch worktree (builds with and without verif-hooks; existing suite; seeded_demo.rs fails with the patch and passes without it): " + ver,
  "checks_run": checks, "produced_by": "independent sub-agent given only the property text and a scratch worktree (batch e)"},
  open(f'/verif/seeded/{name}/meta.json','w'), indent=1)
