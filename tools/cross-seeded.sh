#!/usr/bin/env bash
# tools/cross-seeded.sh <suffix>  – meant for `vp run --with-repo -- tools/cross-seeded.sh e`: applies every seeded change of
# one batch to the run's own snapshot of the repository ($VP_RUN_REPO) and runs the quick tier of the related checks from
# the run's own snapshot of /verif. Prints one line per (change, check). Not evidence; a sensitivity table only.
set -u
suf="$1"
here="$(cd "$(dirname "$0")/.." && pwd -P)"
repo="${VP_RUN_REPO:?run under vp run --with-repo}"
declare -A REL=(
 [C01]="C01 C02 C04 C08" [C02]="C02 C01 C04 C08 C12" [C03]="C03 C12 C10" [C04]="C04 C01 C09 C10" [C05]="C05 C18 C02"
 [C06]="C06 C18 C05" [C07]="C07 C14 C06" [C08]="C08 C01 C04" [C09]="C09 C10" [C10]="C10 C01 C04" [C11]="C11 C10"
 [C12]="C12 C14" [C13]="C13 C09 C16" [C14]="C14 C10 C12" [C15]="C15 C07 C14 C16" [C16]="C16 C13 C14" [C17]="C17 C16" [C18]="C18 C13"
)
"$here/check" --build || exit 2
for n in $(seq -w 1 18); do
  id="C$n"; p="/verif/seeded/$id-$suf/patch.diff"
  [ -f "$p" ] || continue
  git -C "$repo" apply "$p" || { echo "$id-$suf: patch does not apply"; continue; }
  for c in ${REL[$id]}; do
    "$here/check" $c quick > "$here/cross-$id-$suf-$c.log" 2>&1; rc=$?
    sig=$(grep -E "signature:" "$here/cross-$id-$suf-$c.log" | head -3 | sed 's/ *signature: //' | tr '\n' ' ')
    ev=$(grep -E "^$c quick:" "$here/cross-$id-$suf-$c.log" | sed 's/.*: \([0-9]*\) evaluations.*/\1/')
    echo "RESULT $id-$suf vs $c: rc=$rc evaluations=$ev $sig"
  done
  git -C "$repo" checkout -q -- . ; git -C "$repo" clean -fdq -- src
done
