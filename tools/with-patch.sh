#!/usr/bin/env bash
# tools/with-patch.sh <patch.diff> <command...> – apply a seeded change to /repo, run the command, undo it.
set -u
patch="$1"; shift
git -C /repo diff --quiet || { echo "/repo has uncommitted changes" >&2; exit 2; }
git -C /repo apply "$patch" || { echo "patch does not apply" >&2; exit 2; }
"$@"; rc=$?
git -C /repo checkout -q -- . ; git -C /repo clean -fdq -- src
exit $rc
