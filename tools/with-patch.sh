#!/usr/bin/env bash
# tools/with-patch.sh <patch.diff> <command...> – apply a seeded change to /repo, run the command, undo it.
# The evidence directory is preserved; the harness is rebuilt against the clean tree afterwards.
set -u
patch="$1"; shift
git -C /repo diff --quiet || { echo "/repo has uncommitted changes" >&2; exit 2; }
save=$(mktemp -d); cp -a /verif/evidence "$save/evidence" 2>/dev/null
git -C /repo apply "$patch" || { echo "patch does not apply" >&2; exit 2; }
"$@"; rc=$?
git -C /repo checkout -q -- . ; git -C /repo clean -fdq -- src
rm -rf /verif/evidence; [ -d "$save/evidence" ] && cp -a "$save/evidence" /verif/evidence; rm -rf "$save"
/verif/check --build
exit $rc
