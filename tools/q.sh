#!/usr/bin/env bash
# tools/q.sh <ID>... – quick tier of the given checks, one summary block each (rc, summary line, violations)
for id in "$@"; do
  /verif/check $id quick > /tmp/q-$id.log 2>&1; rc=$?
  echo "## $id rc=$rc $(grep -E "^$id (quick|thorough):" /tmp/q-$id.log)"
  grep -E "VIOLATION|KNOWN-FINDING|INCONCLUSIVE|signature:|detail:" /tmp/q-$id.log | cut -c1-700 | head -6
done
