#!/usr/bin/env python3
"""Regenerate /verif/MANIFEST.json from the table below (one entry per claimed property)."""
import json, subprocess

PBT = "model-based property testing (proptest)"
DONE = {
 "C01": dict(level="exploration",
  text="Generated pairs of reachable replica states (memory/file, both initiators, default and generated split-factor/max-set-size through the config hook) are reconciled message by message; termination bound, equality of both final states with the order-free merge of the reference model, mirrored counters, a silent second session, store self-consistency and untouched bystander documents in the same stores are asserted. A rare crowd family gives each side up to 1025 overlapping entries (every seventh with conflicting content). Timestamps come from T0+{0..7} (ties, late older arrivals) and from a wide table (0, byte boundaries of both encodings, the future bound). The property quantifies over all state pairs and configurations, which only generated search reaches.",
  note="Trusts the reference model (DESIGN.md §2.3), ignores fingerprint collisions; non-default parameters only through the verif-hooks override; bounded to <= 40 entries per side.",
  technique=PBT + ": two-replica sessions vs. order-free merge oracle"),
 "C02": dict(level="exploration",
  text="Generated histories (local insert/delete with a hooked clock, remote inserts, re-offers, reopen) are checked step by step against an independent reference model of the newest-wins / prefix-deletion rule, and generated entry sets are applied in several permutations with duplicates and compared with the order-free merge. Rare histories contain a crowd of 255..2049 entries under one key that a later insert or deletion prunes at once (the reported count must be exact). 40 % of the histories are observed between steps through point lookups only, so that consecutive offers share one write transaction (the full scans commit it). PBT is the right level: the property quantifies over all histories, and the oracle is a 40-line executable model.",
  note="Trusts ed25519 determinism (predicting locally created entries), redb, and the reference model of DESIGN.md §2.3; bounded to <= 60 steps, <= 3 authors, short keys over a 4-letter alphabet plus derived prefix/0xFF neighbours.",
  technique=PBT + ": step-wise differential against a reference model + permutation metamorphic check"),
 "C07": dict(level="exploration",
  text="Generated histories of capability imports (Read/Write in any order, repeated, for three documents), opens, closes, write attempts, remote inserts, secret export, store reopen and store mutations that fail (settings for unknown documents) run against Store/Replica and against the store actor; a three-state capability model with Write absorbing predicts every reply, the listed kinds and every document's contents after every step (half of the histories: only after a reopen and at the end, because the observing reads commit the open transaction).",
  note="Bounded to 3 documents and <= 60 steps; 'reopen' of an in-memory store hands the same Store to a new actor.",
  technique=PBT + ": history vs. capability state-machine model"),
 "C13": dict(level="exploration",
  text="Histories (entries arriving in any timestamp order, deletions, reopen, document removal and re-creation) are checked after every step: reported heads = per-author maxima of the entries held, has_news_for_us = number of reported authors that are unknown or strictly newer. Generated head sets (up to 12 authors, and 100..320 authors so that the list prefix of the encoding grows to two bytes; authors sharing timestamps; limits also placed exactly at, one below and one above the encoded size of the k newest heads) are round-tripped without limit and, under generated limits, checked for size, subset, newest-that-fit and maximality with an independent size computation. A third family reconciles two generated replicas and compares each side's reported heads_received (the engine's sync report) with the per-author maxima of the entries it was sent according to the transcript, and lets a third replica judge that report. A fourth family drives a real live actor (hook H9): a generated sync report must lead to a dial exactly when it names news for the document's actual contents, and the report the engine hands to gossip after a finished session must exist iff entries were received and carry the newest received heads that fit the gossip limit.",
  note="Limits start at 1 byte; any key at the head timestamp is accepted as head key.",
  technique=PBT + ": invariant over histories + round-trip / optimality oracle for the heads encoding"),
 "C15": dict(level="exploration",
  text="Generated policies (both kinds, exact/prefix byte filters incl. empty, non-UTF-8 and ':'), keys related to the filters, and generated well- and ill-formed filter strings are checked against an independent statement of the matching rule and of the filter grammar; set/get/reopen/missing-document behaviour and the should_download flag of remote-insert events are checked on real stores and actors.",
  note="The grammar oracle re-reads 'kind:encoding:rest' independently with split-at-first-two-colons.",
  technique=PBT + ": definition-as-oracle, Display/FromStr round-trip"),
 "C16": dict(level="exploration",
  text="Multi-document stores (ids that are byte-order neighbours, ids ending in 0xFF, all-FF / all-00 ids via unvalidated raw rows) go through generated histories of writes, settings, removal while closed / open, re-creation and reopen; after every step the full observable dump of every document is compared: only the targeted document may change, a removed one equals the empty document, and content_hashes() equals the hashes held.",
  note="Raw-row cases exercise bound arithmetic only and are labelled as such; oracle is differential in time (dump before vs. after).",
  technique=PBT + ": frame-condition check over full observable dumps"),
 "C17": dict(level="exploration",
  text="Generated registration sequences over up to 9 peers and 3 documents plus a missing one, with reads and reopen, compared after every step with a move-to-front list truncated to five. Rare bursts register up to 600 distinct peers in a row.",
  note="Assumes consecutive registrations get distinct wall-clock nanosecond stamps.",
  technique=PBT + ": history vs. MRU list model"),
 "C18": dict(level="exploration",
  text="Generated multi-document file stores are closed, the derived tables (heads, by-key index, or both) are deleted with plain redb, and the store is reopened 1..=4 times: heads are compared with the per-author maxima of the records, key-ordered queries with the naive executor of C05, everything else with the pre-deletion dump, and each further reopen with the previous one.",
  note="Older databases are emulated by table deletion, by moving the documents back into the old namespaces table and by re-encoding the file in the redb 2.x tuple format with redb 3.",
  technique=PBT + ": metamorphic (delete derived tables, reopen) + model oracle"),
 "C03": dict(level="exploration",
  text="A validly signed entry is tampered in every way the statement lists (bit flips / byte changes of each field and signature, borrowed or swapped signatures, other real keys or non-curve points as ids, every combination of claimed namespace id and signing secret (own/foreign), wrong author secrets, timestamps around now+10min under a pinned clock, the four emptiness combinations) and offered both as a single remote insert and inside crafted reconciliation messages through the store actor with a subscriber; acceptance, stored state and events must coincide with an independently evaluated validity predicate on both paths, and no other document of the receiving store may hold anything afterwards. All single-bit flips of one base entry are enumerated exhaustively in every run.",
  note="Trusts ed25519 (signatures are verified by the oracle with iroh::PublicKey::verify over independently assembled bytes); forged entries are built through the public serde encoding.",
  technique=PBT + " + exhaustive single-bit-flip enumeration: metamorphic tampering vs. validity-predicate oracle on two ingress paths"),
 "C12": dict(level="exploration",
  text="Histories through the store actor (local writes, valid / superseded / invalid remote inserts, crafted messages, real sessions during which a local write obsoletes in-flight entries, subscribers joining, unsubscribing and dropping, policy changes, all content-status values); after every request each channel is drained and compared as an exact event sequence with the model applied to the step's valid entries in processing order, plus model-independent clauses (no event on error, only offered entries, all subscribers agree, nothing after leaving). 1 % of the cases are live swarms of real nodes on the loopback network driven through the client API: every acknowledged local write appears once and in order as a local insert event at the writing node's client subscriber, every foreign entry held at quiescence appeared exactly once as a remote insert naming one of the other nodes, and there is no remote insert event for an entry nobody wrote, for the node's own entry, or twice.",
  note="The live cases are scheduled by the real network (not a pure function of the seed; only timing-independent clauses are judged, and only after a stable closing sweep). Channels have capacity 4096 so the actor never blocks; a post-state that differs from the model is attributed to C02 and only model-independent clauses are judged.",
  technique=PBT + ": event-sequence oracle from the reference model over observed pre-states"),
 "C14": dict(level="exploration",
  text="Sequential client histories over three documents covering every request kind of the store handle, plus a concurrent variant (two or three client threads; Wing-Gong linearizability search against the same model) and a pipelined variant (one client enqueues a batch without awaiting any reply; replies and final contents must equal sequential execution in issue order); a per-document model {exists, handles, sync, subscribers, entries} predicts each reply's success class, close's boolean, get_state and the contents; failed requests (including store mutations that fail inside the store, e.g. settings for unknown documents) must change nothing; query replies that the client leaves unread (one-item buffer) while it goes on must later yield a state the document had since the query, and must not keep shutdown from handing the store back; the store returned by shutdown must hold every acknowledged write.",
  note="Sequential variant: one client, replies-in-request-order is checked as 'each reply reflects all earlier requests'. Concurrent variant: two client threads with <= 5 requests each, or three with <= 4 each, on one document; the recorded history must be linearizable w.r.t. the model whatever interleaving the OS produced (verdict independent of the interleaving, coverage of interleavings is whatever the OS gives).",
  technique=PBT + ": history vs. open/close/sync state-machine model; linearizability check for concurrent clients"),
 "C09": dict(level="exploration",
  text="Frame streams built from real session transcripts are written with the real encoder, cut at generated points (also inside length prefixes), truncated and corrupted byte by byte, and decoded with the real decoder; signed entries and key pairs are compared with an independent byte-layout encoder and the suite's golden snapshots; tickets, capabilities, policies and head sets are round-tripped; random and mutated-valid byte strings are fed to ten decoder targets whose bodies contain the round-trip oracle. The thorough tier adds a coverage-guided libFuzzer campaign (cargo-fuzz) over the same target bodies.",
  note="The encoder is exercised only as the crate uses it (FramedWrite::send). libFuzzer runs are pinned only approximately by -seed/-runs; a saved artifact is converted into a JSON replay and judged by the release-build oracle.",
  technique="property testing (proptest) with round-trip / independent-encoder oracles + coverage-guided fuzzing (libFuzzer via cargo-fuzz) of the decoders"),
 "C10": dict(level="fault_enumeration",
  text="Scripted peers play every frame sequence of length <= 3 (thorough <= 4) over a 9-symbol alphabet (handshake for a known / unknown document, live replies of a real replica, unexpected well-formed messages, aborts, undecodable / oversized / truncated frames, close), plus generated longer ones, against the real accepting side (run + into_outcome, every accept decision) and the real initiating side over in-memory streams; and the real initiator and acceptor talk through a proxy that injects, before every frame index on either side, one of: replica closed, sync disabled, store actor stopped (with the exit-pause hook so that the next request lands in the shutdown window), stream cut inside the frame as EOF or as reset. Completion within a watchdog, absence of panics on every thread, abort frame and untouched store on decline, and mirrored counters / merged stores in fault-free runs are asserted. A third family drives two real live actors (documents exist in both stores, real start_sync / leave) through schedules of declined, lost and failed sessions and asserts that a node at which no session finished successfully shows no trace of them in its store.",
  note="QUIC streams are replaced by tokio duplex streams; a hang must reproduce three times to be reported; functional equality is asserted only for fault-free runs.",
  technique="exhaustive small-scope enumeration of frame scripts and fault positions + generated longer scripts (proptest), completion/no-panic/differential oracles"),
 "C08": dict(level="exploration",
  text="The crate's own generic reconciliation routine and put are run over a BTreeMap backend written in the harness (adapter hook) and over in-memory and file-backed redb replicas for the same generated entry lists and parameters: byte-equality of every message of the three transcripts and equal final sets. Generated storage-primitive calls (ranges incl. wrap-around and x=y, first key, fingerprints, prefix lookups, filtered prefix removals, puts) are executed on the redb store and on the textbook BTreeMap definitions: equal results, order and post-states.",
  note="The BTreeMap definitions are the oracle; single-document stores only (ranges naming another document's ids are not claimed by the property).",
  technique=PBT + ": differential between the redb backend and a reference ordered map, transcript byte-equality"),
 "C06": dict(level="fault_enumeration",
  text="For each generated history on a file store, every store access is a candidate placement of the age-based automatic commit (forced through the transaction-age hook, executed by the crate's own age test) and, for each placement, a crash image (byte copy of the database file without flush) is taken after every operation from the armed one on; each image must open, equal a state the in-memory witness run passed through between the last documented commit and the current operation, and be self-consistent. Crash points x commit placements are enumerated exhaustively per history; histories are sampled.",
  note="Trusts redb's commit atomicity (torn pages are out of scope); a crash is modelled as a copy of the file between two store calls of the single-threaded store.",
  technique="fault enumeration (crash point x commit placement, exhaustive per generated history) with a metamorphic witness-run oracle"),
 "C11": dict(level="exploration",
  text="Two real live actors are driven through generated schedules of dial decisions, request/reply delivery and loss, and independent success/failure of both ends of each session; the harness owns the network and feeds synthetic results to the real completion handlers. Invariants over the history: one session at a time per pair, exactly one of two back-to-back simultaneous requests allowed, resync dials only after a refused report and every refused report followed up, Idle and probe-able at quiescence, NotFound for a non-syncing document. 5 % of the schedules run in lifecycle mode: the documents really exist in both stores and are started / left through the real start_sync / leave, and the schedule also leaves and re-joins the document (at quiescence) and queues / completes content downloads; a left document must stay un-synced (requests NotFound, no dials) whatever completes later.",
  note="connect_and_sync / handle_connection themselves are replaced by synthetic results (their QUIC behaviour is not explored); handlers are atomic as in the actor loop.",
  technique=PBT + ": schedule exploration of the two-node coordination state machine with history invariants"),
 "C04": dict(level="exploration",
  text="2..=5 replicas with skewed clocks go through generated histories of local writes and deletions, arbitrary (lost, duplicated, reordered) deliveries of written entries, reconciliation sessions cut after a generated number of messages and restarts of file-backed replicas; then complete sessions are swept along a generated connected pair set until nothing moves. A fifth of the histories run with every replica behind a store actor: writes, deliveries and restarts through SyncHandle, sessions through the real initiator / acceptor over in-memory streams that a proxy cuts after the generated number of frames. At every step every stored entry must be byte-identical to a locally written one; at quiescence all replicas must equal the order-free merge of all accepted local writes, within n+2 sweeps. About 1.5 % of the cases are live swarms: 2..=4 real nodes (endpoint, gossip, blob store, the Docs engine behind a protocol router; memory or file-backed, some holding only the read capability, each with a generated download policy) on the loopback network, driven through the client API with writes, deletions, leave / re-join, restarts from disk and pauses; no node may ever hold an entry nobody wrote, a read-only node may never write or share write access, a restart may not lose an entry, and on a stable closing sweep (every pair of a connected pair set reported enough successful sessions that one of them ran entirely inside the sweep, and no node changed during the sweep) all nodes must equal the merge; client subscribers must have seen every local write once, every held foreign entry exactly once as a remote insert from one of the other nodes, and no blob may be present that the node neither added itself nor was allowed to fetch by its policy.",
  note="'Eventually' is checked as safety at quiescence of the closing sweeps; gossip is modelled as per-entry delivery through insert_remote_entry in the plain families; skews within +-290 s. The live family is scheduled by the real network and the tokio runtime, so it is not a pure function of the seed: its verdicts are built to be independent of timing, and a case in which no stable sweep is reached within the time budget is counted and not judged on convergence.",
  technique=PBT + ": multi-replica history exploration with convergence-to-merge oracle at quiescence"),
 "C05": dict(level="exploration",
  text="For generated replica states, generated queries over the full product of query options are compared, as exact sequences, with a naive filter/group/sort/skip/take executor over the store's actual contents; point lookups and the two physical access paths are cross-checked.",
  note="Latest-per-key semantics as documented on Query (author filter after grouping); ties between authors at the greatest timestamp are judged by a validity predicate or skipped and counted.",
  technique=PBT + ": differential against a naive query executor"),
}

# sentences appended to the level texts (extensions of session 5)
EXTRA = {
 "C01": " Half of the pairs have a side (or both) that holds the document read-only.",
 "C09": " The pinned layouts also cover AuthorId / NamespaceId (their 32 bytes) and head reports (independent decoder).",
 "C02": " A small family sends the local steps (insert / prefix delete with its reported count) through the client API of a real engine (Doc::set_hash, Doc::del, Doc::get_many) against the same model.",
 "C03": " The clause 'counted as inserted' is judged through the store actor's counters of entries added by peers: exact for single remote inserts, never above what was valid and applied for a message.",
 "C07": " About 1.6 % of the cases drive the client API of a real Docs engine (memory or file-backed): imports that hand back handles which stay open, further opens and closes, writes through set_bytes / del, drop, restart from disk; the capability model predicts every write and the listed kinds after every step.",
 "C10": " Against a scripted peer a successful acceptor may not report fewer received entries than it took into its store. A rare family gives one side of a real-vs-real session 255..1100 entries by as many distinct authors (filling the store is under the watchdog too).",
 "C11": " In lifecycle schedules sync-report dial decisions go through the real report handler. Lifecycle schedules also deliver neighbour-down notices through the live actor's real inbox dispatch: the slot kept for the peer must not change.",
 "C12": " A quarter of the cases have a subscriber whose channel also serves the other document of the same actor. Rare cases add a crowd of 31..257 subscribers that must all see the same sequence.",
 "C05": " About 0.7 % of the cases run every query once more through the client API of a real engine opened on the generated database (Doc::get_many / Doc::get_exact).",
 "C15": " A capability for the document is imported again after a policy was set (the policy must stay). Rare policies carry 126..300 filters; a small family sets and reads policies through the client API of a real engine, with a restart from disk.",
 "C17": " Some file-backed histories end with the lists read through the client API of a real engine opened on the database.",
 "C16": " Rare cases add 127..300 bystander documents (entries, policies, peers) that must be listed and unchanged at the end.",
 "C18": " The key each reported head names must survive every open that has nothing to rebuild. A fifth of the cases re-encode the whole file in the tuple format of the releases built on redb 2.x (redb 3's Legacy types) before it is opened; nothing observable - entries, heads, settings, remembered peers - may change.",
}
for k, v in EXTRA.items():
    DONE[k]["text"] += v

def main():
    ids = [json.loads(l)['id'] for l in open('/verif/properties.jsonl')]
    hooks_commit = "78e6fa5"; hooks_commit2 = "b21e23e"
    checks = []
    for i in ids:
        if i not in DONE:
            continue
        d = DONE[i]
        checks.append(dict(property_id=i, quick_cmd=f"./check {i} quick", thorough_cmd=f"./check {i} thorough",
            evidence_file=f"/verif/evidence/{i}.json", replay_cmd_template=f"./check {i} --replay {{path}}", engine=d.get("engine", "dv"),
            level_claimed=dict(category=d['level'], text=d['text'], design_ref="DESIGN.md §4 " + i),
            level_note=d['note'], technique=d['technique']))
    m = dict(version=1, setup_cmd="./check --build",
        hooks=dict(guard="verif-hooks (cargo feature of iroh-docs)",
            enable="the harness depends on iroh-docs { path = \"/repo\", features = [\"verif-hooks\"] }",
            baseline_off_cmd="cd /repo && (cargo nextest run --workspace --no-fail-fast --tool-config-file pb:/w/lib/nextest.toml --profile pb --test-threads 8 --offline || cargo test --workspace --no-fail-fast --offline)",
            source_commits=[hooks_commit, hooks_commit2, "0ea3e6c", "0601798", "2bf690e", "ecc7a36", "9905f87"], add_only=True),
        engines=[dict(name="dv", path="/verif/harness", serves_properties=[c['property_id'] for c in checks],
            kind_free_text="Rust binary: proptest 1.11 strategies driven through TestRunner with fixed seeds, 16 worker processes, JSON replay files, reference model + differential oracles")],
        checks=checks,
        notes="See DESIGN.md. KNOWN_FINDINGS.txt lists repaired (fixed:) and recorded (known:) defects. ./check <ID> --replay <file> re-runs one saved case.",
        not_applicable=[dict(property_id=i, reason="check not built yet in this round (design in DESIGN.md §4); will be claimed once its harness module exists") for i in ids if i not in DONE])
    json.dump(m, open('/verif/MANIFEST.json', 'w'), indent=1)

main()
