#!/usr/bin/env python3
"""Regenerate /verif/MANIFEST.json from the table below (one entry per claimed property)."""
import json, subprocess

PBT = "model-based property testing (proptest)"
DONE = {
 "C01": dict(level="exploration",
  text="Generated pairs of reachable replica states (memory/file, both initiators, default and generated split-factor/max-set-size through the config hook) are reconciled message by message; termination bound, equality of both final states with the order-free merge of the reference model, mirrored counters, a silent second session and store self-consistency are asserted. The property quantifies over all state pairs and configurations, which only generated search reaches.",
  note="Trusts the reference model (DESIGN.md §2.3), ignores fingerprint collisions; non-default parameters only through the verif-hooks override; bounded to <= 40 entries per side.",
  technique=PBT + ": two-replica sessions vs. order-free merge oracle"),
 "C02": dict(level="exploration",
  text="Generated histories (local insert/delete with a hooked clock, remote inserts, re-offers, reopen) are checked step by step against an independent reference model of the newest-wins / prefix-deletion rule, and generated entry sets are applied in several permutations with duplicates and compared with the order-free merge. PBT is the right level: the property quantifies over all histories, and the oracle is a 40-line executable model.",
  note="Trusts ed25519 determinism (predicting locally created entries), redb, and the reference model of DESIGN.md §2.3; bounded to <= 60 steps, <= 3 authors, short keys over a 4-letter alphabet plus derived prefix/0xFF neighbours.",
  technique=PBT + ": step-wise differential against a reference model + permutation metamorphic check"),
 "C05": dict(level="exploration",
  text="For generated replica states, generated queries over the full product of query options are compared, as exact sequences, with a naive filter/group/sort/skip/take executor over the store's actual contents; point lookups and the two physical access paths are cross-checked.",
  note="Latest-per-key semantics as documented on Query (author filter after grouping); ties between authors at the greatest timestamp are judged by a validity predicate or skipped and counted.",
  technique=PBT + ": differential against a naive query executor"),
}

def main():
    ids = [json.loads(l)['id'] for l in open('/verif/properties.jsonl')]
    hooks_commit = "78e6fa5"
    checks = []
    for i in ids:
        if i not in DONE:
            continue
        d = DONE[i]
        checks.append(dict(property_id=i, quick_cmd=f"./check {i} quick", thorough_cmd=f"./check {i} thorough",
            evidence_file=f"/verif/evidence/{i}.json", replay_cmd_template=f"./check {i} --replay {{path}}", engine=d.get("engine", "dv"),
            level_claimed=dict(category=d['level'], text=d['text'], design_ref="DESIGN.md §4 " + i),
            level_note=d['note'], technique=d['technique']))
    m = dict(version=1, setup_cmd="./check --build",
        hooks=dict(guard="verif-hooks (cargo feature of iroh-docs)",
            enable="the harness depends on iroh-docs { path = \"/repo\", features = [\"verif-hooks\"] }",
            baseline_off_cmd="cd /repo && (cargo nextest run --workspace --no-fail-fast --tool-config-file pb:/w/lib/nextest.toml --profile pb --test-threads 8 --offline || cargo test --workspace --no-fail-fast --offline)",
            source_commits=[hooks_commit], add_only=True),
        engines=[dict(name="dv", path="/verif/harness", serves_properties=[c['property_id'] for c in checks],
            kind_free_text="Rust binary: proptest 1.11 strategies driven through TestRunner with fixed seeds, 16 worker processes, JSON replay files, reference model + differential oracles")],
        checks=checks,
        notes="See DESIGN.md. KNOWN_FINDINGS.txt lists repaired (fixed:) and recorded (known:) defects. ./check <ID> --replay <file> re-runs one saved case.",
        not_applicable=[dict(property_id=i, reason="check not built yet in this round (design in DESIGN.md §4); will be claimed once its harness module exists") for i in ids if i not in DONE])
    json.dump(m, open('/verif/MANIFEST.json', 'w'), indent=1)

main()
