#!/usr/bin/env bash
# tools/run-some.sh <tier> <ID>... – like run-all.sh for the given checks only (meant for `vp run`)
cd "$(dirname "$0")/.." || exit 2
tier="$1"; shift
./check --build || exit 2
fail=0
for id in "$@"; do
  start=$(date +%s.%N)
  out=$(./check "$id" "$tier" 2>&1); rc=$?
  end=$(date +%s.%N)
  printf "%s rc=%d %.1fs  %s\n" "$id" "$rc" "$(echo "$end - $start" | bc)" "$(echo "$out" | head -1)"
  echo "$out" | grep -E "^(VIOLATION|KNOWN-FINDING|INCONCLUSIVE)|signature:|detail:" | cut -c1-600
  [ $rc -ne 0 ] && fail=1
done
exit $fail
