//! Shared proptest strategies.

use proptest::{collection::vec, prelude::*, sample::select};
use serde::{Deserialize, Serialize};

use crate::{
    common::{resolve_keys, ESpec, KeySpec, N_AUTHORS, T0},
    engine::idx,
};

pub fn key_lit_small() -> impl Strategy<Value = Vec<u8>> {
    vec(select(vec![0x00u8, b'a', b'b', 0xFF]), 0..=4)
}

pub fn key_spec() -> impl Strategy<Value = KeySpec> {
    prop_oneof![
        60 => key_lit_small().prop_map(KeySpec::Lit),
        25 => (any::<u16>(), 0u8..6).prop_map(|(f, h)| KeySpec::Der(f, h)),
        10 => (any::<u16>(), any::<bool>()).prop_map(|(f, z)| KeySpec::FfPair(f, z)),
        5 => vec(any::<u8>(), 5..64).prop_map(KeySpec::Lit),
    ]
}

pub fn key_pool(min: usize, max: usize) -> impl Strategy<Value = Vec<KeySpec>> {
    vec(key_spec(), min..=max)
}

/// 1..=3 authors out of the pool of six (three plain, three with boundary ids).
pub fn author_pool() -> impl Strategy<Value = Vec<u8>> {
    prop_oneof![
        3 => vec(0u8..3, 1..=3),
        1 => vec(0u8..(N_AUTHORS as u8), 1..=3),
    ]
}

/// Entry described by indices into the case's key and author pools.
#[derive(Serialize, Deserialize, Clone, Debug, PartialEq, Eq)]
pub struct EGen {
    pub a: u16,
    pub k: u16,
    /// timestamp offset from T0 (µs)
    pub t: u8,
    /// content index (0 = deletion marker)
    pub c: u8,
}

pub fn egen() -> impl Strategy<Value = EGen> {
    (any::<u16>(), any::<u16>(), 0u8..8, 0u8..4).prop_map(|(a, k, t, c)| EGen { a, k, t, c })
}

pub fn to_espec(e: &EGen, authors: &[u8], keys: &[Vec<u8>]) -> ESpec {
    ESpec {
        a: authors[idx(e.a, authors.len())],
        k: keys[idx(e.k, keys.len())].clone(),
        t: T0 + e.t as u64,
        c: e.c,
    }
}

/// Common header of replica-state cases: pools from which entries draw.
#[derive(Serialize, Deserialize, Clone, Debug, PartialEq, Eq)]
pub struct Pools {
    pub ns: u8,
    pub authors: Vec<u8>,
    pub keys: Vec<KeySpec>,
}

impl Pools {
    pub fn keys(&self) -> Vec<Vec<u8>> {
        resolve_keys(&self.keys)
    }
    pub fn authors(&self) -> Vec<u8> {
        if self.authors.is_empty() {
            vec![0]
        } else {
            self.authors.clone()
        }
    }
}

pub fn pools(max_keys: usize) -> impl Strategy<Value = Pools> {
    (
        prop_oneof![4 => Just(0u8), 1 => 0u8..6],
        author_pool(),
        key_pool(1, max_keys),
    )
        .prop_map(|(ns, authors, keys)| Pools { ns, authors, keys })
}

/// Reconciliation parameters: None = the crate default (split 2, max set 1).
pub fn sync_config() -> impl Strategy<Value = Option<(usize, usize)>> {
    prop_oneof![
        5 => Just(None),
        5 => (select(vec![2usize, 3, 4, 5, 6, 8, 16]), select(vec![1usize, 2, 3, 4, 8, 64])).prop_map(Some),
    ]
}
