//! Shared proptest strategies.

use proptest::{collection::vec, prelude::*, sample::select};
use serde::{Deserialize, Serialize};

use crate::{
    common::{resolve_keys, ESpec, KeySpec, N_AUTHORS, T0},
    engine::idx,
};

pub fn key_lit_small() -> impl Strategy<Value = Vec<u8>> {
    vec(select(vec![0x00u8, b'a', b'b', 0xFF]), 0..=4)
}

pub fn key_spec() -> impl Strategy<Value = KeySpec> {
    prop_oneof![
        120 => key_lit_small().prop_map(KeySpec::Lit),
        50 => (any::<u16>(), 0u8..6).prop_map(|(f, h)| KeySpec::Der(f, h)),
        20 => (any::<u16>(), any::<bool>()).prop_map(|(f, z)| KeySpec::FfPair(f, z)),
        8 => vec(any::<u8>(), 5..64).prop_map(KeySpec::Lit),
        2 => vec(any::<u8>(), 64..300).prop_map(KeySpec::Lit), // record ids longer than 127 and 255 bytes
        1 => (0u8..24, 0u8..3).prop_map(|(c, f)| KeySpec::Long(c, f)), // 1 KiB .. 16 KiB, see `common::long_key_len`
    ]
}

pub fn key_pool(min: usize, max: usize) -> impl Strategy<Value = Vec<KeySpec>> {
    vec(key_spec(), min..=max)
}

/// 1..=3 authors out of the pool of six (three plain, three with boundary ids).
pub fn author_pool() -> impl Strategy<Value = Vec<u8>> {
    prop_oneof![
        3 => vec(0u8..3, 1..=3),
        1 => vec(0u8..(N_AUTHORS as u8), 1..=3),
    ]
}

/// Entry described by indices into the case's key and author pools.
#[derive(Serialize, Deserialize, Clone, Debug, PartialEq, Eq)]
pub struct EGen {
    pub a: u16,
    pub k: u16,
    /// timestamp offset from T0 (µs)
    pub t: u8,
    /// content index (0 = deletion marker)
    pub c: u8,
}

pub fn egen() -> impl Strategy<Value = EGen> {
    // timestamps: mostly T0 + {0..7} (many ties and late older arrivals), sometimes from the wide table (`ts_of`)
    let t = prop_oneof![6 => 0u8..8, 1 => 8u8..(8 + WIDE_TS.len() as u8)];
    // contents: deletion marker / three small blobs, sometimes a record with a wide declared length (`common::WIDE_LENS`)
    let c = prop_oneof![12 => 0u8..4, 1 => 4u8..12];
    (any::<u16>(), any::<u16>(), t, c).prop_map(|(a, k, t, c)| EGen { a, k, t, c })
}

/// Timestamps far from `T0`, on both sides of byte boundaries of the big- and little-endian encodings, at 0 and at the
/// future bound of the pinned clock (`T0 + 3 + 10 min` is still valid): orders that differ between numeric and byte-wise
/// comparison show up here and never among `T0 + {0..7}`.
pub const WIDE_TS: [u64; 16] = [
    0,
    1,
    0xFF,
    0x100,
    0xFFFF,
    0x1_0000,
    0xFFFF_FFFF,
    0x1_0000_0000,
    T0 - 0x100,
    T0 - 1,
    T0 + 0xFF,
    T0 + 0x100,
    T0 + 0xFFFF,
    T0 + 0x1_0000,
    T0 + 599_999_999,
    T0 + 3 + 600_000_000,
];

/// `t < 8`: `T0 + t`; otherwise an element of `WIDE_TS` (saved cases written before the table existed only use `t < 8`).
pub fn ts_of(t: u8) -> u64 {
    if t < 8 {
        T0 + t as u64
    } else {
        WIDE_TS[(t as usize - 8) % WIDE_TS.len()]
    }
}

pub fn to_espec(e: &EGen, authors: &[u8], keys: &[Vec<u8>]) -> ESpec {
    ESpec {
        a: authors[idx(e.a, authors.len())],
        k: keys[idx(e.k, keys.len())].clone(),
        t: ts_of(e.t),
        c: e.c,
    }
}

/// Common header of replica-state cases: pools from which entries draw.
#[derive(Serialize, Deserialize, Clone, Debug, PartialEq, Eq)]
pub struct Pools {
    pub ns: u8,
    pub authors: Vec<u8>,
    pub keys: Vec<KeySpec>,
}

impl Pools {
    pub fn keys(&self) -> Vec<Vec<u8>> {
        resolve_keys(&self.keys)
    }
    pub fn authors(&self) -> Vec<u8> {
        if self.authors.is_empty() {
            vec![0]
        } else {
            self.authors.clone()
        }
    }
}

pub fn pools(max_keys: usize) -> impl Strategy<Value = Pools> {
    (
        prop_oneof![4 => Just(0u8), 1 => 0u8..6],
        author_pool(),
        key_pool(1, max_keys),
    )
        .prop_map(|(ns, authors, keys)| Pools { ns, authors, keys })
}

/// Reconciliation parameters: None = the crate default (split 2, max set 1).
pub fn sync_config() -> impl Strategy<Value = Option<(usize, usize)>> {
    prop_oneof![
        5 => Just(None),
        5 => (select(vec![2usize, 3, 4, 5, 6, 8, 16]), select(vec![0usize, 1, 2, 3, 4, 8, 64])).prop_map(Some),
        1 => (select(vec![2usize, 7, 64, 1000]), select(vec![1usize, 5, 1000, usize::MAX])).prop_map(Some),
    ]
}

/// Noise operations (see `common::Noise`).
pub fn noise() -> impl Strategy<Value = crate::common::Noise> {
    use crate::common::Noise;
    prop_oneof![
        3 => Just(Noise::ImportDoc),
        1 => Just(Noise::RemoveDoc),
        4 => (0u8..3, 0u8..5, 0u8..4).prop_map(|(a, k, c)| Noise::Write(a, k, c)),
        2 => any::<bool>().prop_map(Noise::SetPolicy),
        2 => (any::<bool>(), 1u8..9).prop_map(|(b, p)| Noise::RegisterPeer(b, p)),
        2 => Just(Noise::Flush),
        1 => Just(Noise::ListNamespaces),
        1 => Just(Noise::ContentHashes),
        1 => Just(Noise::ReadSettings),
        1 => Just(Noise::OpenClose),
        1 => Just(Noise::RemoveWhileOpen),
        1 => (0u8..4).prop_map(Noise::ImportAuthor),
    ]
}
