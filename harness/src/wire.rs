//! Mirror structs for the (private) reconciliation message type, through its serde encoding, and a
//! driver that runs a session between two stores message by message.

use iroh_docs::{
    store::Store, sync::ProtocolMessage, ContentStatus, NamespaceId, RecordIdentifier, SignedEntry, SyncOutcome,
};
use serde::{Deserialize, Serialize};

use crate::common::{es, R};

#[derive(Serialize, Deserialize, Clone, Debug, PartialEq)]
pub struct MRange {
    pub x: RecordIdentifier,
    pub y: RecordIdentifier,
}

#[derive(Serialize, Deserialize, Clone, Debug, PartialEq)]
pub struct MFingerprint(pub [u8; 32]);

#[derive(Serialize, Deserialize, Clone, Debug, PartialEq)]
pub struct MRangeFingerprint {
    pub range: MRange,
    pub fingerprint: MFingerprint,
}

#[derive(Serialize, Deserialize, Clone, Debug, PartialEq)]
pub struct MRangeItem {
    pub range: MRange,
    pub values: Vec<(SignedEntry, ContentStatus)>,
    pub have_local: bool,
}

#[derive(Serialize, Deserialize, Clone, Debug, PartialEq)]
pub enum MPart {
    RangeFingerprint(MRangeFingerprint),
    RangeItem(MRangeItem),
}

#[derive(Serialize, Deserialize, Clone, Debug, PartialEq)]
pub struct MMessage {
    pub parts: Vec<MPart>,
}

impl MMessage {
    pub fn from_real(m: &ProtocolMessage) -> MMessage {
        postcard::from_bytes(&postcard::to_stdvec(m).expect("encode")).expect("mirror decode")
    }
    pub fn to_real(&self) -> ProtocolMessage {
        postcard::from_bytes(&postcard::to_stdvec(self).expect("encode")).expect("real decode")
    }
    pub fn values(&self) -> Vec<&SignedEntry> {
        self.parts
            .iter()
            .filter_map(|p| match p {
                MPart::RangeItem(i) => Some(i.values.iter().map(|(e, _)| e)),
                _ => None,
            })
            .flatten()
            .collect()
    }
}

pub fn enc(m: &ProtocolMessage) -> Vec<u8> {
    postcard::to_stdvec(m).expect("encode")
}

/// What the receiving side of a session gets: the encoding of the message, decoded again. A message its own sender can
/// build but no peer can decode ends the session for good (the replicas can never converge), so it is reported as such.
pub fn over_the_wire(bytes: &[u8], who: &str, n: usize) -> R<ProtocolMessage> {
    postcard::from_bytes(bytes).map_err(|e| {
        format!("wire: message {n} of the session, built by the {who} from entries it accepted, cannot be decoded by its peer: {e:?} ({} bytes)", bytes.len())
    })
}

#[derive(Debug, Clone, Default)]
pub struct Transcript {
    /// postcard encoding of every message, in order; even indices are sent by the initiator
    pub msgs: Vec<Vec<u8>>,
    pub init_out: SyncOutcome,
    pub resp_out: SyncOutcome,
    pub completed: bool,
}

/// Run one session: `init` initiates, `resp` answers. Stops after `max_msgs` messages
/// (completed = false) or when a side has nothing more to say.
pub fn run_session(
    rt: &tokio::runtime::Runtime,
    init: &mut Store,
    resp: &mut Store,
    ns: NamespaceId,
    max_msgs: usize,
) -> R<Transcript> {
    run_session_clocks(rt, init, resp, ns, max_msgs, None)
}

/// Like `run_session`; with `clocks = Some((initiator_now, responder_now))` the hooked clock is switched to the
/// processing side's own value before every message (replicas with skewed clocks).
pub fn run_session_clocks(
    rt: &tokio::runtime::Runtime,
    init: &mut Store,
    resp: &mut Store,
    ns: NamespaceId,
    max_msgs: usize,
    clocks: Option<(u64, u64)>,
) -> R<Transcript> {
    rt.block_on(async {
        let mut t = Transcript::default();
        let init_peer = [0xA1u8; 32];
        let resp_peer = [0xB2u8; 32];
        let mut a = es(init.open_replica(&ns))?;
        let mut b = es(resp.open_replica(&ns))?;
        let mut next = Some(es(a.sync_initial_message())?);
        loop {
            let Some(m) = next.take() else {
                t.completed = true;
                break;
            };
            if t.msgs.len() >= max_msgs {
                break;
            }
            t.msgs.push(enc(&m));
            // the peer gets what travels: the message's encoding, decoded again
            let m = over_the_wire(t.msgs.last().unwrap(), "initiator", t.msgs.len())?;
            if let Some((_, rc)) = clocks {
                iroh_docs::verif::set_clock(Some(rc));
            }
            let reply = b.sync_process_message(m, init_peer, &mut t.resp_out).await.map_err(|e| format!("session: the responder could not process message {}: {e:?}", t.msgs.len()))?;
            let Some(reply) = reply else {
                t.completed = true;
                break;
            };
            if t.msgs.len() >= max_msgs {
                break;
            }
            t.msgs.push(enc(&reply));
            let reply = over_the_wire(t.msgs.last().unwrap(), "responder", t.msgs.len())?;
            if let Some((ic, _)) = clocks {
                iroh_docs::verif::set_clock(Some(ic));
            }
            next = a.sync_process_message(reply, resp_peer, &mut t.init_out).await.map_err(|e| format!("session: the initiator could not process message {}: {e:?}", t.msgs.len()))?;
        }
        drop(a);
        drop(b);
        init.close_replica(ns);
        resp.close_replica(ns);
        Ok(t)
    })
}

// ------------------------------------------------------------------------------------------------
// independent encoder for the pinned byte layout of a signed entry (postcard):
//   64-byte author signature, 64-byte namespace signature, varint-prefixed id bytes
//   (namespace ‖ author ‖ key), varint len, 32-byte hash, varint timestamp

pub fn varint(mut v: u64, out: &mut Vec<u8>) {
    loop {
        let b = (v & 0x7F) as u8;
        v >>= 7;
        if v == 0 {
            out.push(b);
            return;
        }
        out.push(b | 0x80);
    }
}

pub fn encode_signed_entry_raw(
    author_sig: &[u8; 64],
    namespace_sig: &[u8; 64],
    namespace: &[u8; 32],
    author: &[u8; 32],
    key: &[u8],
    len: u64,
    hash: &[u8; 32],
    ts: u64,
) -> Vec<u8> {
    let mut out = Vec::with_capacity(200 + key.len());
    out.extend_from_slice(author_sig);
    out.extend_from_slice(namespace_sig);
    varint(64 + key.len() as u64, &mut out);
    out.extend_from_slice(namespace);
    out.extend_from_slice(author);
    out.extend_from_slice(key);
    varint(len, &mut out);
    out.extend_from_slice(hash);
    varint(ts, &mut out);
    out
}

/// An entry with arbitrary (possibly invalid) field values and signatures, built through the
/// public serde encoding.
pub fn forge_entry(
    author_sig: &[u8; 64],
    namespace_sig: &[u8; 64],
    namespace: &[u8; 32],
    author: &[u8; 32],
    key: &[u8],
    len: u64,
    hash: &[u8; 32],
    ts: u64,
) -> Result<SignedEntry, String> {
    let bytes = encode_signed_entry_raw(author_sig, namespace_sig, namespace, author, key, len, hash, ts);
    postcard::from_bytes(&bytes).map_err(|e| format!("forge_entry: {e:?}"))
}

/// The two signatures of an entry, as raw bytes (taken from its encoding).
pub fn signatures_of(e: &SignedEntry) -> ([u8; 64], [u8; 64]) {
    let b = postcard::to_stdvec(e).expect("encode");
    (b[..64].try_into().unwrap(), b[64..128].try_into().unwrap())
}

/// The bytes both signatures cover: namespace ‖ author ‖ key ‖ len (BE) ‖ hash ‖ timestamp (BE).
pub fn canonical_bytes(namespace: &[u8; 32], author: &[u8; 32], key: &[u8], len: u64, hash: &[u8; 32], ts: u64) -> Vec<u8> {
    let mut out = Vec::with_capacity(112 + key.len());
    out.extend_from_slice(namespace);
    out.extend_from_slice(author);
    out.extend_from_slice(key);
    out.extend_from_slice(&len.to_be_bytes());
    out.extend_from_slice(hash);
    out.extend_from_slice(&ts.to_be_bytes());
    out
}

/// Plain field view of an entry, from which entries with arbitrary tampering can be rebuilt.
#[derive(Clone, Debug, PartialEq, Eq)]
pub struct Fields {
    pub author_sig: [u8; 64],
    pub namespace_sig: [u8; 64],
    pub namespace: [u8; 32],
    pub author: [u8; 32],
    pub key: Vec<u8>,
    pub len: u64,
    pub hash: [u8; 32],
    pub ts: u64,
}

impl Fields {
    pub fn of(e: &SignedEntry) -> Fields {
        let (a, n) = signatures_of(e);
        Fields {
            author_sig: a,
            namespace_sig: n,
            namespace: e.namespace().to_bytes(),
            author: e.author().to_bytes(),
            key: e.key().to_vec(),
            len: e.content_len(),
            hash: *e.content_hash().as_bytes(),
            ts: e.timestamp(),
        }
    }
    pub fn build(&self) -> Result<SignedEntry, String> {
        forge_entry(&self.author_sig, &self.namespace_sig, &self.namespace, &self.author, &self.key, self.len, &self.hash, self.ts)
    }
    /// Sign the current field values with the given secrets (which need not match the ids).
    pub fn resign(&mut self, ns: &iroh_docs::NamespaceSecret, author: &iroh_docs::Author) {
        let msg = canonical_bytes(&self.namespace, &self.author, &self.key, self.len, &self.hash, self.ts);
        self.namespace_sig = ns.sign(&msg).to_bytes();
        self.author_sig = author.sign(&msg).to_bytes();
    }
    /// The validity predicate of the property, evaluated independently of `SignedEntry::verify`.
    pub fn valid(&self, expected_ns: &[u8; 32], now: u64) -> bool {
        if &self.namespace != expected_ns {
            return false;
        }
        let msg = canonical_bytes(&self.namespace, &self.author, &self.key, self.len, &self.hash, self.ts);
        let Ok(nk) = iroh::PublicKey::from_bytes(&self.namespace) else { return false };
        let Ok(ak) = iroh::PublicKey::from_bytes(&self.author) else { return false };
        if nk.verify(&msg, &iroh::Signature::from_bytes(&self.namespace_sig)).is_err() {
            return false;
        }
        if ak.verify(&msg, &iroh::Signature::from_bytes(&self.author_sig)).is_err() {
            return false;
        }
        if self.ts > now.saturating_add(crate::common::FUTURE_SHIFT) {
            return false;
        }
        let empty_hash = &self.hash == iroh_blobs::Hash::EMPTY.as_bytes();
        empty_hash == (self.len == 0)
    }
}
