//! Mirror structs for the (private) reconciliation message type, through its serde encoding, and a
//! driver that runs a session between two stores message by message.

use iroh_docs::{
    store::Store, sync::ProtocolMessage, ContentStatus, NamespaceId, RecordIdentifier, SignedEntry, SyncOutcome,
};
use serde::{Deserialize, Serialize};

use crate::common::{es, R};

#[derive(Serialize, Deserialize, Clone, Debug, PartialEq)]
pub struct MRange {
    pub x: RecordIdentifier,
    pub y: RecordIdentifier,
}

#[derive(Serialize, Deserialize, Clone, Debug, PartialEq)]
pub struct MFingerprint(pub [u8; 32]);

#[derive(Serialize, Deserialize, Clone, Debug, PartialEq)]
pub struct MRangeFingerprint {
    pub range: MRange,
    pub fingerprint: MFingerprint,
}

#[derive(Serialize, Deserialize, Clone, Debug, PartialEq)]
pub struct MRangeItem {
    pub range: MRange,
    pub values: Vec<(SignedEntry, ContentStatus)>,
    pub have_local: bool,
}

#[derive(Serialize, Deserialize, Clone, Debug, PartialEq)]
pub enum MPart {
    RangeFingerprint(MRangeFingerprint),
    RangeItem(MRangeItem),
}

#[derive(Serialize, Deserialize, Clone, Debug, PartialEq)]
pub struct MMessage {
    pub parts: Vec<MPart>,
}

impl MMessage {
    pub fn from_real(m: &ProtocolMessage) -> MMessage {
        postcard::from_bytes(&postcard::to_stdvec(m).expect("encode")).expect("mirror decode")
    }
    pub fn to_real(&self) -> ProtocolMessage {
        postcard::from_bytes(&postcard::to_stdvec(self).expect("encode")).expect("real decode")
    }
    pub fn values(&self) -> Vec<&SignedEntry> {
        self.parts
            .iter()
            .filter_map(|p| match p {
                MPart::RangeItem(i) => Some(i.values.iter().map(|(e, _)| e)),
                _ => None,
            })
            .flatten()
            .collect()
    }
}

pub fn enc(m: &ProtocolMessage) -> Vec<u8> {
    postcard::to_stdvec(m).expect("encode")
}

#[derive(Debug, Clone, Default)]
pub struct Transcript {
    /// postcard encoding of every message, in order; even indices are sent by the initiator
    pub msgs: Vec<Vec<u8>>,
    pub init_out: SyncOutcome,
    pub resp_out: SyncOutcome,
    pub completed: bool,
}

/// Run one session: `init` initiates, `resp` answers. Stops after `max_msgs` messages
/// (completed = false) or when a side has nothing more to say.
pub fn run_session(
    rt: &tokio::runtime::Runtime,
    init: &mut Store,
    resp: &mut Store,
    ns: NamespaceId,
    max_msgs: usize,
) -> R<Transcript> {
    rt.block_on(async {
        let mut t = Transcript::default();
        let init_peer = [0xA1u8; 32];
        let resp_peer = [0xB2u8; 32];
        let mut a = es(init.open_replica(&ns))?;
        let mut b = es(resp.open_replica(&ns))?;
        let mut next = Some(es(a.sync_initial_message())?);
        loop {
            let Some(m) = next.take() else {
                t.completed = true;
                break;
            };
            if t.msgs.len() >= max_msgs {
                break;
            }
            t.msgs.push(enc(&m));
            let reply = es(b.sync_process_message(m, init_peer, &mut t.resp_out).await)?;
            let Some(reply) = reply else {
                t.completed = true;
                break;
            };
            if t.msgs.len() >= max_msgs {
                break;
            }
            t.msgs.push(enc(&reply));
            next = es(a.sync_process_message(reply, resp_peer, &mut t.init_out).await)?;
        }
        drop(a);
        drop(b);
        init.close_replica(ns);
        resp.close_replica(ns);
        Ok(t)
    })
}
