//! Shared vocabulary: key/author/namespace pools, entry specs, the reference model, store helpers.

use std::{
    collections::{BTreeMap, BTreeSet},
    sync::OnceLock,
};

use iroh_blobs::Hash;
use iroh_docs::{
    store::{Query, SortBy, SortDirection, Store},
    Author, AuthorId, NamespaceId, NamespaceSecret, Record, SignedEntry,
};
use serde::{Deserialize, Serialize};

/// Base timestamp (µs). The hooked clock is usually pinned at `T0 + 3`.
pub const T0: u64 = 1_700_000_000_000_000;
pub const FUTURE_SHIFT: u64 = 600_000_000;

pub mod hexbytes {
    use serde::{Deserialize, Deserializer, Serializer};
    pub fn serialize<S: Serializer>(v: &Vec<u8>, s: S) -> Result<S::Ok, S::Error> {
        s.serialize_str(&hex::encode(v))
    }
    pub fn deserialize<'de, D: Deserializer<'de>>(d: D) -> Result<Vec<u8>, D::Error> {
        let s = String::deserialize(d)?;
        hex::decode(s).map_err(serde::de::Error::custom)
    }
}

pub mod hexbytes_vec {
    use serde::{Deserialize, Deserializer, Serializer, ser::SerializeSeq};
    pub fn serialize<S: Serializer>(v: &Vec<Vec<u8>>, s: S) -> Result<S::Ok, S::Error> {
        let mut seq = s.serialize_seq(Some(v.len()))?;
        for x in v {
            seq.serialize_element(&hex::encode(x))?;
        }
        seq.end()
    }
    pub fn deserialize<'de, D: Deserializer<'de>>(d: D) -> Result<Vec<Vec<u8>>, D::Error> {
        let v = Vec::<String>::deserialize(d)?;
        v.into_iter()
            .map(|s| hex::decode(s).map_err(serde::de::Error::custom))
            .collect()
    }
}

// ------------------------------------------------------------------------------------------------
// pools of key pairs with deterministic ids; some ids sit at byte-order boundaries

pub const N_AUTHORS: usize = 6;
pub const N_NAMESPACES: usize = 6;

fn search_secret(tag: &str, want: impl Fn(&[u8; 32]) -> bool, id_of: impl Fn(&[u8; 32]) -> [u8; 32]) -> [u8; 32] {
    for n in 0u32..200_000 {
        let mut h = blake3::Hasher::new();
        h.update(tag.as_bytes());
        h.update(&n.to_le_bytes());
        let secret: [u8; 32] = *h.finalize().as_bytes();
        let id = id_of(&secret);
        if want(&id) {
            return secret;
        }
    }
    panic!("no key found for {tag}");
}

fn pool_predicates() -> Vec<(&'static str, fn(&[u8; 32]) -> bool)> {
    vec![
        ("plain0", |_| true),
        ("plain1", |_| true),
        ("plain2", |_| true),
        ("endsff", |id| id[31] == 0xFF),
        ("startsff", |id| id[0] == 0xFF),
        ("starts00", |id| id[0] == 0x00),
    ]
}

pub fn authors() -> &'static Vec<Author> {
    static P: OnceLock<Vec<Author>> = OnceLock::new();
    P.get_or_init(|| {
        pool_predicates()
            .into_iter()
            .map(|(tag, want)| {
                let s = search_secret(&format!("author-{tag}"), want, |s| Author::from_bytes(s).id().to_bytes());
                Author::from_bytes(&s)
            })
            .collect()
    })
}

pub fn namespaces() -> &'static Vec<NamespaceSecret> {
    static P: OnceLock<Vec<NamespaceSecret>> = OnceLock::new();
    P.get_or_init(|| {
        pool_predicates()
            .into_iter()
            .map(|(tag, want)| {
                let s = search_secret(&format!("namespace-{tag}"), want, |s| {
                    NamespaceSecret::from_bytes(s).id().to_bytes()
                });
                NamespaceSecret::from_bytes(&s)
            })
            .collect()
    })
}

pub fn author(i: u8) -> &'static Author {
    &authors()[i as usize % N_AUTHORS]
}
pub fn namespace(i: u8) -> &'static NamespaceSecret {
    &namespaces()[i as usize % N_NAMESPACES]
}
pub fn author_index(id: &AuthorId) -> Option<u8> {
    authors().iter().position(|a| &a.id() == id).map(|i| i as u8)
}

// ------------------------------------------------------------------------------------------------
// keys

#[derive(Serialize, Deserialize, Clone, Debug, PartialEq, Eq)]
pub enum KeySpec {
    /// literal bytes
    Lit(#[serde(with = "hexbytes")] Vec<u8>),
    /// derived from an earlier key of the pool: 0 same, 1 k‖00, 2 k‖FF, 3 succ(k), 4 parent, 5 k‖'a'
    Der(u16, u8),
    /// two keys: K = an earlier key made to end in 0xFF, and the true successor of the prefix K
    /// (strip trailing 0xFF, increment) optionally followed by 0x00 – the sibling that an
    /// increment-with-carry bound wrongly includes
    FfPair(u16, bool),
    /// a long key: length from `LONG_KEY_LENS` (around 1 KiB .. 16 KiB, with and without the 64 id bytes of namespace and
    /// author, on both sides of each boundary), filled with one byte (0x00, 'a', 0xFF) - limits that two code sites measure
    /// differently (key vs. whole record id), multi-byte length prefixes, long runs of 0xFF
    Long(u8, u8),
}

/// Lengths of `KeySpec::Long` keys.
pub fn long_key_len(class: u8) -> usize {
    const BASES: [usize; 4] = [1024, 4096, 8192, 16384];
    const OFFS: [isize; 6] = [-65, -64, -63, -1, 0, 1];
    let c = class as usize % (BASES.len() * OFFS.len());
    (BASES[c / OFFS.len()] as isize + OFFS[c % OFFS.len()]) as usize
}

/// Smallest byte string greater than every string that starts with `k` (None for empty / all-FF).
pub fn prefix_successor(k: &[u8]) -> Option<Vec<u8>> {
    let mut v = k.to_vec();
    while let Some(last) = v.last_mut() {
        if *last == 0xFF {
            v.pop();
        } else {
            *last += 1;
            return Some(v);
        }
    }
    None
}

pub fn lexical_successor(k: &[u8]) -> Vec<u8> {
    // same-length increment with carry (what the crate calls increment_by_one); all-FF wraps to zeros
    let mut v = k.to_vec();
    for b in v.iter_mut().rev() {
        if *b != 0xFF {
            *b += 1;
            return v;
        }
        *b = 0;
    }
    v
}

/// Set when a case resolved a `KeySpec::Long`; the engine turns it into a class label of the case.
pub static LONG_KEY_SEEN: std::sync::atomic::AtomicBool = std::sync::atomic::AtomicBool::new(false);

pub fn resolve_keys(specs: &[KeySpec]) -> Vec<Vec<u8>> {
    if specs.iter().any(|s| matches!(s, KeySpec::Long(..))) {
        LONG_KEY_SEEN.store(true, std::sync::atomic::Ordering::Relaxed);
    }
    let mut out: Vec<Vec<u8>> = Vec::with_capacity(specs.len());
    for (i, s) in specs.iter().enumerate() {
        let k = match s {
            KeySpec::Lit(b) => b.clone(),
            KeySpec::Der(from, how) => {
                if i == 0 {
                    vec![]
                } else {
                    let base = out[crate::engine::idx(*from, out.len())].clone();
                    match how % 6 {
                        0 => base,
                        1 => [base, vec![0x00]].concat(),
                        2 => [base, vec![0xFF]].concat(),
                        3 => lexical_successor(&base),
                        4 => {
                            let mut b = base;
                            b.pop();
                            b
                        }
                        _ => [base, vec![b'a']].concat(),
                    }
                }
            }
            KeySpec::Long(class, fill) => vec![[0x00u8, b'a', 0xFF][*fill as usize % 3]; long_key_len(*class)],
            KeySpec::FfPair(from, zero) => {
                let mut base = if i == 0 || out.is_empty() { vec![b'a'] } else { out[crate::engine::idx(*from, out.len())].clone() };
                if base.last() != Some(&0xFF) {
                    base.push(0xFF);
                }
                if let Some(mut s) = prefix_successor(&base) {
                    if *zero {
                        s.push(0);
                    }
                    out.push(s);
                }
                base
            }
        };
        out.push(k);
    }
    if out.is_empty() {
        out.push(vec![]);
    }
    out
}

// ------------------------------------------------------------------------------------------------
// entries

/// Content table: 0 = deletion marker, others = small blobs (hash of the bytes, len of the bytes).
pub const CONTENTS: [&[u8]; 4] = [b"", b"x", b"y", b"zz"];

/// Declared lengths for content indices 4..: the store never sees the content, so any length is a legal record
/// (byte boundaries of the varint and of the fixed-width encodings, and the extremes).
pub const WIDE_LENS: [u64; 8] = [1, 0x7F, 0x80, 0xFFFF, 0x1_0000, 0xFFFF_FFFF, 0x1_0000_0000, u64::MAX];

pub fn content(c: u8) -> (Hash, u64) {
    if c >= 4 && c < 4 + WIDE_LENS.len() as u8 {
        // a hash that depends on the index only, with a wide declared length
        return (Hash::new([b'w', c]), WIDE_LENS[c as usize - 4]);
    }
    let data = CONTENTS[c as usize % CONTENTS.len()];
    if data.is_empty() {
        (Hash::EMPTY, 0)
    } else {
        (Hash::new(data), data.len() as u64)
    }
}

/// Abstract description of an entry; `t` is an absolute timestamp in µs.
#[derive(Serialize, Deserialize, Clone, Debug, PartialEq, Eq)]
pub struct ESpec {
    pub a: u8,
    #[serde(with = "hexbytes")]
    pub k: Vec<u8>,
    pub t: u64,
    pub c: u8,
}

pub fn sign(ns: &NamespaceSecret, e: &ESpec) -> SignedEntry {
    let (hash, len) = content(e.c);
    SignedEntry::from_parts(ns, author(e.a), &e.k, Record::new(hash, len, e.t))
}

pub fn describe(e: &SignedEntry) -> String {
    let a = author_index(&e.author())
        .map(|i| format!("a{i}"))
        .unwrap_or_else(|| hex::encode(&e.author().as_bytes()[..4]));
    let c = if e.content_hash() == Hash::EMPTY {
        "DEL".to_string()
    } else {
        hex::encode(&e.content_hash().as_bytes()[..2])
    };
    let t = e.timestamp();
    let ts = if t >= T0 && t - T0 < 1_000_000_000_000 {
        format!("T0+{}", t - T0)
    } else {
        t.to_string()
    };
    format!("({a},{},{ts},{c},len{})", key_hex(e.key()), e.content_len())
}

/// Hex of a key; long keys are abbreviated to head, length and tail.
pub fn key_hex(k: &[u8]) -> String {
    if k.len() <= 40 {
        hex::encode(k)
    } else {
        format!("{}..[{} bytes]..{}", hex::encode(&k[..4]), k.len(), hex::encode(&k[k.len() - 2..]))
    }
}

pub fn describe_all(es: &[SignedEntry]) -> String {
    let v: Vec<String> = es.iter().map(describe).collect();
    format!("[{}]", v.join(" "))
}

// ------------------------------------------------------------------------------------------------
// the reference model

pub type MKey = ([u8; 32], Vec<u8>);

fn value_of(e: &SignedEntry) -> (u64, [u8; 32]) {
    (e.timestamp(), *e.content_hash().as_bytes())
}

#[derive(Clone, Debug, Default, PartialEq, Eq)]
pub struct Model {
    pub m: BTreeMap<MKey, SignedEntry>,
}

impl Model {
    pub fn mkey(e: &SignedEntry) -> MKey {
        (e.author().to_bytes(), e.key().to_vec())
    }

    /// Is `e` admitted: strictly greater than every same-author entry at a key that is a prefix of
    /// (or equal to) its key – the empty key and deletion markers included.
    pub fn admits(&self, e: &SignedEntry) -> bool {
        let a = e.author().to_bytes();
        let key = e.key();
        for n in 0..=key.len() {
            if let Some(p) = self.m.get(&(a, key[..n].to_vec())) {
                if value_of(e) <= value_of(p) {
                    return false;
                }
            }
        }
        true
    }

    /// Sequential rule. Returns `Some(removed)` if inserted, `None` if rejected (nothing changes).
    pub fn apply(&mut self, e: &SignedEntry) -> Option<usize> {
        if !self.admits(e) {
            return None;
        }
        let a = e.author().to_bytes();
        let key = e.key().to_vec();
        let doomed: Vec<MKey> = self
            .m
            .iter()
            .filter(|((ca, ck), c)| *ca == a && ck.starts_with(&key) && value_of(c) <= value_of(e))
            .map(|(k, _)| k.clone())
            .collect();
        for k in &doomed {
            self.m.remove(k);
        }
        self.m.insert((a, key), e.clone());
        Some(doomed.len())
    }

    /// Order-free definition: keep e iff no other same-author entry at a prefix key dominates it.
    pub fn merge<'a>(entries: impl IntoIterator<Item = &'a SignedEntry>) -> Model {
        let all: Vec<&SignedEntry> = entries.into_iter().collect();
        let mut m = BTreeMap::new();
        for (i, e) in all.iter().enumerate() {
            let mut keep = true;
            for (j, o) in all.iter().enumerate() {
                if i == j || o.author() != e.author() || !e.key().starts_with(o.key()) {
                    continue;
                }
                if o.key() == e.key() {
                    // same key: strictly greater wins; identical values are the same entry (ties by index)
                    if value_of(o) > value_of(e) || (value_of(o) == value_of(e) && j < i) {
                        keep = false;
                    }
                } else if value_of(o) >= value_of(e) {
                    keep = false;
                }
                if !keep {
                    break;
                }
            }
            if keep {
                m.insert(Self::mkey(e), (*e).clone());
            }
        }
        Model { m }
    }

    pub fn dump(&self) -> Vec<SignedEntry> {
        self.m.values().cloned().collect()
    }

    pub fn heads(&self) -> BTreeMap<[u8; 32], u64> {
        let mut h = BTreeMap::new();
        for ((a, _), e) in &self.m {
            let t = h.entry(*a).or_insert(0u64);
            *t = (*t).max(e.timestamp());
        }
        h
    }
}

// ------------------------------------------------------------------------------------------------
// store helpers

pub type R<T> = Result<T, String>;

pub fn es<T, E: std::fmt::Debug>(r: Result<T, E>) -> R<T> {
    r.map_err(|e| format!("{e:?}"))
}

/// All entries of a document, author-key order, deletion markers included.
pub fn dump(store: &mut Store, ns: NamespaceId) -> R<Vec<SignedEntry>> {
    let it = es(store.get_many(ns, Query::all().include_empty()))?;
    let v: Result<Vec<_>, _> = it.collect();
    es(v)
}

pub fn dump_by_key(store: &mut Store, ns: NamespaceId) -> R<Vec<SignedEntry>> {
    let q = Query::all()
        .include_empty()
        .sort_by(SortBy::KeyAuthor, SortDirection::Asc);
    let it = es(store.get_many(ns, q))?;
    let v: Result<Vec<_>, _> = it.collect();
    es(v)
}

pub fn heads(store: &mut Store, ns: NamespaceId) -> R<BTreeMap<[u8; 32], (u64, Vec<u8>)>> {
    let it = es(store.get_latest_for_each_author(ns))?;
    let mut m = BTreeMap::new();
    for x in it {
        let (a, t, k) = es(x)?;
        m.insert(a.to_bytes(), (t, k));
    }
    Ok(m)
}

/// Store self-consistency (shared by several properties): the two physical access paths return the
/// same set, point lookups agree with the scan, the scan is sorted and duplicate free, and the
/// per-author heads are exactly the per-author maxima of the entries held.
pub fn self_consistent(store: &mut Store, ns: NamespaceId) -> R<()> {
    let d = dump(store, ns)?;
    // sorted by (author, key), unique
    for w in d.windows(2) {
        let a = (w[0].author().to_bytes(), w[0].key().to_vec());
        let b = (w[1].author().to_bytes(), w[1].key().to_vec());
        if a >= b {
            return Err(format!("author-key scan not strictly ascending: {}", describe_all(&d)));
        }
    }
    let mut bk = dump_by_key(store, ns)?;
    for w in bk.windows(2) {
        let a = (w[0].key().to_vec(), w[0].author().to_bytes());
        let b = (w[1].key().to_vec(), w[1].author().to_bytes());
        if a >= b {
            return Err(format!("key-author scan not strictly ascending: {}", describe_all(&bk)));
        }
    }
    bk.sort_by(|x, y| (x.author().to_bytes(), x.key().to_vec()).cmp(&(y.author().to_bytes(), y.key().to_vec())));
    if bk != d {
        return Err(format!(
            "access paths disagree: author-key {} vs key-author {}",
            describe_all(&d),
            describe_all(&bk)
        ));
    }
    for e in &d {
        let got = es(store.get_exact(ns, e.author(), e.key(), true))?;
        if got.as_ref() != Some(e) {
            return Err(format!("get_exact({}) = {:?}", describe(e), got.as_ref().map(describe)));
        }
        let got = es(store.get_exact(ns, e.author(), e.key(), false))?;
        let want = if e.content_hash() == Hash::EMPTY { None } else { Some(e.clone()) };
        if got != want {
            return Err(format!("get_exact(excl. empty)({}) = {:?}", describe(e), got.as_ref().map(describe)));
        }
    }
    heads_consistent(store, ns, &d)
}

pub fn heads_consistent(store: &mut Store, ns: NamespaceId, d: &[SignedEntry]) -> R<()> {
    let h = heads(store, ns)?;
    let mut want: BTreeMap<[u8; 32], u64> = BTreeMap::new();
    for e in d {
        let t = want.entry(e.author().to_bytes()).or_insert(0);
        *t = (*t).max(e.timestamp());
    }
    let got: BTreeMap<[u8; 32], u64> = h.iter().map(|(a, (t, _))| (*a, *t)).collect();
    if got != want {
        if want.len() > 8 {
            // many authors: only the differences
            let diff: Vec<String> = want
                .keys()
                .chain(got.keys())
                .collect::<std::collections::BTreeSet<_>>()
                .into_iter()
                .filter(|a| got.get(*a) != want.get(*a))
                .take(8)
                .map(|a| format!("author {}: head {:?}, newest entry held {:?}", hex::encode(&a[..3]), got.get(a), want.get(a)))
                .collect();
            return Err(format!("heads differ from the per-author maxima of the {} entries held ({} authors): {}", d.len(), want.len(), diff.join("; ")));
        }
        return Err(format!(
            "heads {:?} != per-author maxima {:?} of {}",
            got.iter().map(|(a, t)| (hex::encode(&a[..3]), *t)).collect::<Vec<_>>(),
            want.iter().map(|(a, t)| (hex::encode(&a[..3]), *t)).collect::<Vec<_>>(),
            describe_all(d)
        ));
    }
    for (a, (t, k)) in &h {
        if !d.iter().any(|e| e.author().as_bytes() == a && e.timestamp() == *t && e.key() == &k[..]) {
            return Err(format!(
                "head key {} of author {} at {} is not the key of an entry with that timestamp",
                hex::encode(k),
                hex::encode(&a[..3]),
                t
            ));
        }
    }
    Ok(())
}

pub fn same_entries(a: &[SignedEntry], b: &[SignedEntry]) -> bool {
    a == b
}

pub fn as_set(v: &[SignedEntry]) -> BTreeSet<Vec<u8>> {
    v.iter().map(|e| postcard::to_stdvec(e).unwrap()).collect()
}

/// A store that is either in memory or on a file in the worker's scratch directory.
pub struct AnyStore {
    pub store: Store,
    pub path: Option<std::path::PathBuf>,
}

impl AnyStore {
    pub fn new(ctx: &mut crate::engine::Ctx, file: bool) -> R<AnyStore> {
        if file {
            let p = ctx.fresh_path("store");
            let store = es(Store::persistent(&p))?;
            Ok(AnyStore { store, path: Some(p) })
        } else {
            Ok(AnyStore { store: Store::memory(), path: None })
        }
    }
    /// Drop the store and open the file again (no-op for memory stores).
    pub fn reopen(self) -> R<AnyStore> {
        let AnyStore { store, path } = self;
        match path {
            None => Ok(AnyStore { store, path: None }),
            Some(p) => {
                drop(store);
                let store = es(Store::persistent(&p))?;
                Ok(AnyStore { store, path: Some(p) })
            }
        }
    }
    pub fn cleanup(self) {
        let AnyStore { store, path } = self;
        drop(store);
        if let Some(p) = path {
            let _ = std::fs::remove_file(p);
        }
    }
}

/// Fill a document through the validated remote-insert path; returns the model of what it holds.
/// The model is only used for classification by callers that compare against the real dump.
pub fn populate(
    rt: &tokio::runtime::Runtime,
    store: &mut Store,
    nssec: &NamespaceSecret,
    entries: &[SignedEntry],
) -> R<Model> {
    populate_cap(rt, store, nssec, entries, false)
}

/// Like `populate`; with `read_only` the store only gets the read capability of the document (it can still take every
/// validly signed entry from peers).
pub fn populate_cap(
    rt: &tokio::runtime::Runtime,
    store: &mut Store,
    nssec: &NamespaceSecret,
    entries: &[SignedEntry],
    read_only: bool,
) -> R<Model> {
    let ns = nssec.id();
    if read_only {
        es(store.import_namespace(iroh_docs::Capability::Read(ns)))?;
    } else {
        es(store.import_namespace(nssec.clone().into()))?;
    }
    let mut model = Model::default();
    rt.block_on(async {
        let mut r = es(store.open_replica(&ns))?;
        for e in entries {
            let exp = model.apply(e);
            let got = r
                .insert_remote_entry(e.clone(), [9u8; 32], iroh_docs::ContentStatus::Missing)
                .await;
            match (got, exp) {
                (Ok(_), Some(_)) => {}
                (Err(iroh_docs::sync::InsertError::NewerEntryExists), None) => {}
                (g, x) => {
                    return Err(format!(
                        "populate: offering {} gave {:?}, model {:?} (C02 territory)",
                        describe(e),
                        g.map_err(|e| e.to_string()),
                        x
                    ))
                }
            }
        }
        Ok(())
    })?;
    store.close_replica(ns);
    Ok(model)
}

// ------------------------------------------------------------------------------------------------
// full observable dump of a store (used by C06, C16, C18)

#[derive(Clone, Debug, PartialEq, Eq, Default)]
pub struct DocDump {
    pub entries: Vec<SignedEntry>,
    pub by_key: Vec<SignedEntry>,
    /// author -> head timestamp (the head key is checked separately: any key at that timestamp is fine)
    pub heads: BTreeMap<[u8; 32], u64>,
    pub peers: Option<Vec<[u8; 32]>>,
    pub policy: String,
    pub kind: Option<String>,
}

#[derive(Clone, Debug, PartialEq, Eq, Default)]
pub struct StoreDump {
    pub docs: BTreeMap<[u8; 32], DocDump>,
    pub namespaces: Vec<([u8; 32], String)>,
    pub authors: Vec<[u8; 32]>,
    pub content_hashes: BTreeSet<[u8; 32]>,
}

pub fn doc_dump(store: &mut Store, ns: NamespaceId) -> R<DocDump> {
    let mut kind = None;
    for x in es(store.list_namespaces())? {
        let (id, k) = es(x)?;
        if id == ns {
            kind = Some(format!("{k:?}"));
        }
    }
    doc_dump_with_kind(store, ns, kind)
}

fn doc_dump_with_kind(store: &mut Store, ns: NamespaceId, kind: Option<String>) -> R<DocDump> {
    let entries = dump(store, ns)?;
    let by_key = dump_by_key(store, ns)?;
    let heads = heads(store, ns)?.into_iter().map(|(a, (t, _))| (a, t)).collect();
    let peers = es(store.get_sync_peers(&ns))?.map(|it| it.collect());
    let policy = format!("{:?}", es(store.get_download_policy(&ns))?);
    Ok(DocDump { entries, by_key, heads, peers, policy, kind })
}

pub fn store_dump(store: &mut Store, docs: &[NamespaceId]) -> R<StoreDump> {
    let mut d = StoreDump::default();
    // listed once (every listing parses every stored capability, which derives a public key per write capability)
    for x in es(store.list_namespaces())? {
        let (id, k) = es(x)?;
        d.namespaces.push((id.to_bytes(), format!("{k:?}")));
    }
    for ns in docs {
        let kind = d.namespaces.iter().find(|(id, _)| *id == ns.to_bytes()).map(|(_, k)| k.clone());
        d.docs.insert(ns.to_bytes(), doc_dump_with_kind(store, *ns, kind)?);
    }
    for a in es(store.list_authors())? {
        d.authors.push(es(a)?.id().to_bytes());
    }
    for h in es(store.content_hashes())? {
        d.content_hashes.insert(*es(h)?.as_bytes());
    }
    Ok(d)
}

pub fn describe_doc(d: &DocDump) -> String {
    format!(
        "entries {} by_key {} heads {:?} peers {:?} policy {} kind {:?}",
        describe_all(&d.entries),
        describe_all(&d.by_key),
        d.heads.iter().map(|(a, t)| (hex::encode(&a[..2]), *t)).collect::<Vec<_>>(),
        d.peers.as_ref().map(|p| p.iter().map(|x| x[0]).collect::<Vec<_>>()),
        d.policy,
        d.kind
    )
}

pub fn describe_store(d: &StoreDump) -> String {
    let docs: Vec<String> = d.docs.iter().map(|(k, v)| format!("doc {}: {}", hex::encode(&k[..3]), describe_doc(v))).collect();
    format!(
        "{} | namespaces {:?} | authors {} | content hashes {}",
        docs.join(" ; "),
        d.namespaces.iter().map(|(k, s)| (hex::encode(&k[..3]), s.clone())).collect::<Vec<_>>(),
        d.authors.len(),
        d.content_hashes.len()
    )
}

// ------------------------------------------------------------------------------------------------
// "noise": legal operations on *other* parts of the same store, interleaved into a property's histories.
// The frame condition they check is generic: whatever happens to another document, to the settings tables, to the
// author table or to the transaction boundaries (flush, committing reads, requests that fail inside the store) must not
// change what the property observes.

#[derive(Serialize, Deserialize, Clone, Debug, PartialEq, Eq)]
pub enum Noise {
    ImportDoc,
    RemoveDoc,
    /// (author slot, key selector, content index) written into the noise document through the remote-insert path
    Write(u8, u8, u8),
    /// on the noise document (true) or on a document that never exists (false: the request fails inside the store)
    SetPolicy(bool),
    RegisterPeer(bool, u8),
    Flush,
    ListNamespaces,
    ContentHashes,
    ReadSettings,
    OpenClose,
    /// open the noise document and try to remove it (refused), then close it
    RemoveWhileOpen,
    ImportAuthor(u8),
}

#[derive(Default, Debug, Clone)]
pub struct NoiseState {
    pub exists: bool,
    pub applied: u32,
    pub failed_inside_store: u32,
}

pub fn noise_namespace() -> &'static NamespaceSecret {
    static N: OnceLock<NamespaceSecret> = OnceLock::new();
    N.get_or_init(|| NamespaceSecret::from_bytes(&[0x4E; 32]))
}

pub fn never_existing_namespace() -> NamespaceId {
    NamespaceSecret::from_bytes(&[0x4D; 32]).id()
}

pub fn noise_entry(a: u8, k: u8, c: u8) -> SignedEntry {
    let key: Vec<u8> = match k % 5 {
        0 => vec![],
        1 => b"a".to_vec(),
        2 => vec![b'a', 0xFF],
        3 => b"ab".to_vec(),
        _ => vec![0xFF],
    };
    sign(noise_namespace(), &ESpec { a: a % 3, k: key, t: T0 + (k as u64 % 4), c: c % 4 })
}

/// Apply one noise operation to a bare store. Failures that the operation is *expected* to produce are swallowed;
/// an unexpected result is reported (it is a frame violation of its own: e.g. a setting accepted for a missing document).
pub fn apply_noise(rt: &tokio::runtime::Runtime, store: &mut Store, n: &Noise, st: &mut NoiseState) -> R<()> {
    use iroh_docs::store::DownloadPolicy;
    let nid = noise_namespace().id();
    st.applied += 1;
    match n {
        Noise::ImportDoc => {
            es(store.import_namespace(noise_namespace().clone().into()))?;
            st.exists = true;
        }
        Noise::RemoveDoc => {
            es(store.remove_replica(&nid))?;
            st.exists = false;
        }
        Noise::Write(a, k, c) => {
            if st.exists {
                let e = noise_entry(*a, *k, *c);
                rt.block_on(async {
                    let mut r = es(store.open_replica(&nid))?;
                    let _ = r.insert_remote_entry(e, [0x4E; 32], iroh_docs::ContentStatus::Missing).await;
                    Ok::<(), String>(())
                })?;
                store.close_replica(nid);
            }
        }
        Noise::SetPolicy(on_noise) => {
            let target = if *on_noise { nid } else { never_existing_namespace() };
            let r = store.set_download_policy(&target, DownloadPolicy::NothingExcept(vec![]));
            let should = *on_noise && st.exists;
            if r.is_ok() != should {
                return Err(format!("noise: set_download_policy on a document that {} returned ok={}", if should { "exists" } else { "does not exist" }, r.is_ok()));
            }
            if !should {
                st.failed_inside_store += 1;
            }
        }
        Noise::RegisterPeer(on_noise, p) => {
            let target = if *on_noise { nid } else { never_existing_namespace() };
            let r = store.register_useful_peer(target, [*p; 32]);
            let should = *on_noise && st.exists;
            if r.is_ok() != should {
                return Err(format!("noise: register_useful_peer on a document that {} returned ok={}", if should { "exists" } else { "does not exist" }, r.is_ok()));
            }
            if !should {
                st.failed_inside_store += 1;
            }
        }
        Noise::Flush => es(store.flush())?,
        Noise::ListNamespaces => {
            for x in es(store.list_namespaces())? {
                es(x)?;
            }
        }
        Noise::ContentHashes => {
            for x in es(store.content_hashes())? {
                es(x)?;
            }
        }
        Noise::ReadSettings => {
            let _ = es(store.get_sync_peers(&nid))?.map(|i| i.count());
            let _ = store.get_download_policy(&nid);
            let _ = es(store.get_sync_peers(&never_existing_namespace()))?.map(|i| i.count());
        }
        Noise::OpenClose => {
            if st.exists {
                let _ = es(store.open_replica(&nid))?;
                store.close_replica(nid);
            } else if store.open_replica(&nid).is_ok() {
                return Err("noise: a removed document could be opened".into());
            }
        }
        Noise::RemoveWhileOpen => {
            if st.exists {
                let _ = es(store.open_replica(&nid))?;
                let r = store.remove_replica(&nid);
                store.close_replica(nid);
                if r.is_ok() {
                    return Err("noise: remove_replica succeeded on an open document".into());
                }
                st.failed_inside_store += 1;
            }
        }
        Noise::ImportAuthor(i) => {
            let a = Author::from_bytes(&[0x40 + (*i % 4); 32]);
            es(store.import_author(a))?;
        }
    }
    Ok(())
}
