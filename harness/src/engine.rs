//! Runner: proptest as a library, worker processes, replay, evidence, known findings.
//!
//! A property is a `Prop` implementation: a proptest strategy producing serialisable cases and a
//! check function (the oracle). The parent process replays saved cases, spawns worker processes
//! (each with its own seed derived from VERIF_SEED), merges their reports, writes the evidence file
//! and prints VIOLATION / KNOWN-FINDING lines.

use std::{
    collections::{BTreeMap, BTreeSet},
    io::Read,
    path::{Path, PathBuf},
    process::{Command, Stdio},
    sync::Mutex,
    time::{Duration, Instant},
};

use proptest::{
    strategy::{BoxedStrategy, Strategy},
    test_runner::{Config, RngAlgorithm, RngSeed, TestCaseError, TestError, TestRunner},
};
use serde::{de::DeserializeOwned, Deserialize, Serialize};
use serde_json::{json, Value};

/// Where replays, failures, evidence and KNOWN_FINDINGS.txt live (overridable for isolated mutation runs).
pub fn verif_dir() -> PathBuf {
    PathBuf::from(std::env::var("DV_VERIF_DIR").unwrap_or_else(|_| "/verif".to_string()))
}

#[derive(Debug, Clone, Copy, PartialEq, Eq)]
pub enum Tier {
    Quick,
    Thorough,
}

impl Tier {
    pub fn name(&self) -> &'static str {
        match self {
            Tier::Quick => "quick",
            Tier::Thorough => "thorough",
        }
    }
    pub fn parse(s: &str) -> Tier {
        match s {
            "thorough" => Tier::Thorough,
            _ => Tier::Quick,
        }
    }
    pub fn pick<T>(&self, quick: T, thorough: T) -> T {
        match self {
            Tier::Quick => quick,
            Tier::Thorough => thorough,
        }
    }
}

/// A mismatch between the oracle and the code. `sig` is a short structural signature (which clause,
/// which structural reason); `detail` is free text for the reader.
#[derive(Debug, Clone, Serialize, Deserialize)]
pub struct Failure {
    pub sig: String,
    pub detail: String,
}

impl Failure {
    pub fn new(sig: impl Into<String>, detail: impl Into<String>) -> Self {
        Failure {
            sig: sig.into(),
            detail: detail.into(),
        }
    }
}

#[derive(Debug, Default)]
pub struct Outcome {
    /// satisfies the property's stated non-triviality rule
    pub nontrivial: bool,
    /// labels for the class histogram
    pub classes: Vec<&'static str>,
    pub failure: Option<Failure>,
    /// additive counters reported in the evidence (e.g. crash images opened, queries compared)
    pub counts: Vec<(&'static str, u64)>,
}

impl Outcome {
    pub fn count(&mut self, name: &'static str, n: u64) {
        if let Some(c) = self.counts.iter_mut().find(|c| c.0 == name) {
            c.1 += n;
        } else {
            self.counts.push((name, n));
        }
    }
    pub fn class(&mut self, c: &'static str) {
        if !self.classes.contains(&c) {
            self.classes.push(c);
        }
    }
    pub fn fail(&mut self, sig: impl Into<String>, detail: impl Into<String>) {
        if self.failure.is_none() {
            let (mut sig, detail) = (sig.into(), detail.into());
            // errors of the shared session driver arrive as strings: a message that its peer cannot decode is a finding
            // about the code, not about the harness
            if detail.starts_with("wire:") {
                if let Some(id) = sig.strip_suffix("/harness-error") {
                    sig = format!("{id}/message-cannot-be-decoded-by-its-peer");
                }
            }
            self.failure = Some(Failure::new(sig, detail));
        }
    }
    pub fn failed(&self) -> bool {
        self.failure.is_some()
    }
}

/// Per-worker context.
pub struct Ctx {
    pub rt: tokio::runtime::Runtime,
    pub scratch: PathBuf,
    pub tier: Tier,
    counter: u64,
    /// lazily built per-worker fixtures (e.g. the two live actors of C11)
    pub fixtures: BTreeMap<&'static str, Box<dyn std::any::Any>>,
}

impl Ctx {
    pub fn new(tier: Tier) -> Ctx {
        let rt = tokio::runtime::Builder::new_current_thread()
            .enable_all()
            .build()
            .expect("runtime");
        let base = if Path::new("/dev/shm").is_dir() {
            PathBuf::from("/dev/shm")
        } else {
            std::env::temp_dir()
        };
        let scratch = base.join(format!("dv-{}", std::process::id()));
        std::fs::create_dir_all(&scratch).expect("scratch dir");
        Ctx {
            rt,
            scratch,
            tier,
            counter: 0,
            fixtures: BTreeMap::new(),
        }
    }
    /// A fresh path inside the scratch directory.
    pub fn fresh_path(&mut self, stem: &str) -> PathBuf {
        self.counter += 1;
        self.scratch.join(format!("{stem}-{}", self.counter))
    }
    pub fn remove(&self, p: &Path) {
        let _ = std::fs::remove_file(p);
    }
}

impl Drop for Ctx {
    fn drop(&mut self) {
        self.fixtures.clear();
        let _ = std::fs::remove_dir_all(&self.scratch);
    }
}

pub trait Prop: 'static {
    type Case: Serialize + DeserializeOwned + std::fmt::Debug + Clone + 'static;
    const ID: &'static str;
    /// "exploration" or "fault_enumeration"
    const LEVEL: &'static str = "exploration";
    fn rule() -> String;
    /// number of randomly generated cases, total over all workers
    fn cases(tier: Tier) -> u64;
    fn workers(_tier: Tier) -> usize {
        16
    }
    fn strategy(tier: Tier) -> BoxedStrategy<Self::Case>;
    /// finite sub-space enumerated exhaustively before the random search (split over workers)
    fn enumerate(_tier: Tier) -> Vec<Self::Case> {
        Vec::new()
    }
    fn check(ctx: &mut Ctx, case: &Self::Case) -> Outcome;
    fn assumptions() -> Vec<String> {
        Vec::new()
    }
    /// wall-clock safety net for one worker (seconds); exceeding it is "inconclusive" (exit 2)
    fn worker_budget_s(tier: Tier) -> u64 {
        tier.pick(900, 7200)
    }
}

// ------------------------------------------------------------------------------------------------
// panic capture

static LAST_PANIC: Mutex<Option<String>> = Mutex::new(None);

pub fn install_panic_hook() {
    std::panic::set_hook(Box::new(|info| {
        let msg = if let Some(s) = info.payload().downcast_ref::<&str>() {
            s.to_string()
        } else if let Some(s) = info.payload().downcast_ref::<String>() {
            s.clone()
        } else {
            "<non-string panic>".to_string()
        };
        let loc = info
            .location()
            .map(|l| format!("{}:{}", l.file(), l.line()))
            .unwrap_or_default();
        let thread = std::thread::current().name().unwrap_or("?").to_string();
        *LAST_PANIC.lock().unwrap() = Some(format!("{msg} at {loc} (thread {thread})"));
    }));
}

pub fn take_last_panic() -> Option<String> {
    LAST_PANIC.lock().unwrap().take()
}

/// The case a worker is evaluating right now: (start, serialised case). Read by the worker's case watchdog.
static CURRENT_CASE: Mutex<Option<(Instant, String)>> = Mutex::new(None);

/// No single case of any check legitimately runs this long (the slowest - live swarms, crash enumeration over a large
/// batch, crowds of authors - stay well below a minute).
const CASE_LIMIT: Duration = Duration::from_secs(300);

/// A worker whose current case does not finish: if a thread of the code under test (the store actor, a spawned task)
/// panicked meanwhile, the request the case is waiting for will never be answered - that panic is the finding and is
/// reported with the case as it is (no shrinking); otherwise the case is printed and the worker gives up (exit 2,
/// inconclusive - never a violation).
fn spawn_case_watchdog(id: &'static str, out: PathBuf) {
    std::thread::spawn(move || loop {
        std::thread::sleep(Duration::from_secs(1));
        let cur = CURRENT_CASE.lock().unwrap().clone();
        let Some((since, case)) = cur else { continue };
        let waited = since.elapsed();
        let panic = LAST_PANIC.lock().unwrap().clone();
        // a recorded panic plus ten quiet seconds: nobody is going to answer
        if let (Some(msg), true) = (&panic, waited > Duration::from_secs(10)) {
            let head: String = msg.chars().take(120).collect();
            let report = WorkerReport {
                violation: Some(ViolationReport {
                    sig: format!("panic-in-other-thread:{head}"),
                    detail: format!("{msg}; the case was still waiting {waited:?} later (the panicked thread never answered)"),
                    case: serde_json::from_str(&case).unwrap_or(Value::Null),
                }),
                ..WorkerReport::default()
            };
            let _ = std::fs::write(&out, serde_json::to_vec(&report).unwrap());
            std::process::exit(1);
        }
        if waited > CASE_LIMIT {
            eprintln!("INCONCLUSIVE: {id}: one case did not finish within {CASE_LIMIT:?}: {case}");
            std::process::exit(2);
        }
    });
}

/// Run the check, turning a panic of the checking thread into a failure.
fn guarded_check<P: Prop>(ctx: &mut Ctx, case: &P::Case) -> Outcome {
    let o = guarded_check_inner::<P>(ctx, case);
    *CURRENT_CASE.lock().unwrap() = None;
    o
}

fn guarded_check_inner<P: Prop>(ctx: &mut Ctx, case: &P::Case) -> Outcome {
    *CURRENT_CASE.lock().unwrap() = Some((Instant::now(), serde_json::to_string(case).unwrap_or_default()));
    let _ = take_last_panic();
    crate::common::LONG_KEY_SEEN.store(false, std::sync::atomic::Ordering::Relaxed);
    let res = std::panic::catch_unwind(std::panic::AssertUnwindSafe(|| P::check(ctx, case)));
    match res {
        Ok(mut o) => {
            if crate::common::LONG_KEY_SEEN.swap(false, std::sync::atomic::Ordering::Relaxed) {
                o.class("keys/long(1..16KiB,around-the-64-byte-id-overhead)");
            }
            // a timeout of the harness's own plumbing (not of the code under test) is never a verdict: the worker gives up
            // and the run is inconclusive (exit 2)
            if let Some(f) = &o.failure {
                if f.sig.ends_with("/harness-timeout") {
                    eprintln!("INCONCLUSIVE: {}: {}", f.sig, f.detail);
                    std::process::exit(2);
                }
            }
            // a panic on another thread (the store actor, a spawned task) during the case is a failure too
            if let Some(msg) = take_last_panic() {
                if !o.failed() {
                    let head: String = msg.chars().take(120).collect();
                    o.fail(format!("panic-in-other-thread:{head}"), msg);
                }
            }
            o
        }
        Err(_) => {
            let msg = take_last_panic().unwrap_or_else(|| "panic".into());
            let mut o = Outcome::default();
            // strip the thread name / line for the signature: file + message head
            let head: String = msg.chars().take(120).collect();
            o.fail(format!("panic:{head}"), msg);
            o
        }
    }
}

// ------------------------------------------------------------------------------------------------
// seeds, hashing

pub fn splitmix(mut x: u64) -> u64 {
    x = x.wrapping_add(0x9E37_79B9_7F4A_7C15);
    let mut z = x;
    z = (z ^ (z >> 30)).wrapping_mul(0xBF58_476D_1CE4_E5B9);
    z = (z ^ (z >> 27)).wrapping_mul(0x94D0_49BB_1331_11EB);
    z ^ (z >> 31)
}

fn derive_seed(seed: u64, id: &str, tier: Tier, worker: usize) -> u64 {
    let mut h = splitmix(seed);
    for b in id.bytes() {
        h = splitmix(h ^ b as u64);
    }
    h = splitmix(h ^ (tier.pick(1, 2)));
    splitmix(h ^ (worker as u64).wrapping_mul(0x1000_0001))
}

fn hash_case(v: &[u8]) -> u64 {
    let h = blake3::hash(v);
    u64::from_le_bytes(h.as_bytes()[..8].try_into().unwrap())
}

pub fn env_seed() -> u64 {
    std::env::var("VERIF_SEED")
        .ok()
        .and_then(|s| s.trim().parse::<u64>().ok())
        .unwrap_or(1)
}

// ------------------------------------------------------------------------------------------------
// known findings

#[derive(Debug, Clone)]
pub struct KnownFinding {
    pub sig: String,
    pub what: String,
}

/// Lines: `known: property=<id> signature=<sig> <what fails>`; `fixed:` lines suppress nothing.
pub fn load_known(id: &str) -> Vec<KnownFinding> {
    let path = verif_dir().join("KNOWN_FINDINGS.txt");
    let Ok(text) = std::fs::read_to_string(path) else {
        return vec![];
    };
    let mut out = vec![];
    for line in text.lines() {
        let line = line.trim();
        let Some(rest) = line.strip_prefix("known:") else {
            continue;
        };
        let rest = rest.trim();
        let mut it = rest.splitn(3, ' ');
        let (Some(p), Some(s)) = (it.next(), it.next()) else {
            continue;
        };
        let what = it.next().unwrap_or("").to_string();
        let (Some(p), Some(s)) = (p.strip_prefix("property="), s.strip_prefix("signature=")) else {
            continue;
        };
        if p == id {
            out.push(KnownFinding {
                sig: s.to_string(),
                what,
            });
        }
    }
    out
}

// ------------------------------------------------------------------------------------------------
// worker

#[derive(Debug, Default, Serialize, Deserialize)]
pub struct WorkerReport {
    pub evaluations: u64,
    pub enumerated: u64,
    pub nontrivial_hashes: Vec<u64>,
    pub samples: Vec<Value>,
    pub classes: BTreeMap<String, u64>,
    #[serde(default)]
    pub counters: BTreeMap<String, u64>,
    /// signature -> (count, first detail)
    pub known: BTreeMap<String, (u64, String)>,
    pub violation: Option<ViolationReport>,
    pub wall_s: f64,
}

#[derive(Debug, Clone, Serialize, Deserialize)]
pub struct ViolationReport {
    pub sig: String,
    pub detail: String,
    pub case: Value,
}

#[derive(Serialize, Deserialize)]
pub struct ReplayFile {
    pub property: String,
    #[serde(default)]
    pub note: String,
    #[serde(default)]
    pub sig: String,
    #[serde(default)]
    pub detail: String,
    pub case: Value,
}

struct Tally {
    report: WorkerReport,
    seen: BTreeSet<u64>,
    known_sigs: Vec<String>,
    stop_counting: bool,
}

impl Tally {
    /// returns Some(failure) if this outcome is a (not known) violation
    fn record<C: Serialize>(&mut self, case: &C, o: &Outcome, enumerated: bool) -> Option<Failure> {
        if let Some(f) = &o.failure {
            if self.known_sigs.iter().any(|s| s == &f.sig) {
                if !self.stop_counting {
                    self.report.evaluations += 1;
                    let e = self
                        .report
                        .known
                        .entry(f.sig.clone())
                        .or_insert((0, f.detail.clone()));
                    e.0 += 1;
                }
                return None;
            }
            return Some(f.clone());
        }
        if self.stop_counting {
            return None;
        }
        self.report.evaluations += 1;
        if enumerated {
            self.report.enumerated += 1;
        }
        for c in &o.classes {
            *self.report.classes.entry(c.to_string()).or_insert(0) += 1;
        }
        for (k, n) in &o.counts {
            *self.report.counters.entry(k.to_string()).or_insert(0) += n;
        }
        if o.nontrivial {
            let bytes = serde_json::to_vec(case).unwrap_or_default();
            let h = hash_case(&bytes);
            if self.seen.insert(h) {
                self.report.nontrivial_hashes.push(h);
                if self.report.samples.len() < 3 {
                    self.report
                        .samples
                        .push(serde_json::to_value(case).unwrap_or(Value::Null));
                }
            }
        }
        None
    }
}

pub fn run_worker<P: Prop>(tier: Tier, seed: u64, index: usize, workers: usize, out: &Path) -> i32 {
    // a worker must not outlive the run that started it (a killed parent would otherwise leave 16 busy orphans behind)
    unsafe {
        libc::prctl(libc::PR_SET_PDEATHSIG, libc::SIGKILL);
    }
    install_panic_hook();
    spawn_case_watchdog(P::ID, out.to_path_buf());
    let started = Instant::now();
    let mut ctx = Ctx::new(tier);
    let mut tally = Tally {
        report: WorkerReport::default(),
        seen: BTreeSet::new(),
        known_sigs: load_known(P::ID).into_iter().map(|k| k.sig).collect(),
        stop_counting: false,
    };

    // 1. exhaustive sub-space, split over workers
    let mut violation: Option<ViolationReport> = None;
    for (i, case) in P::enumerate(tier).into_iter().enumerate() {
        if i % workers != index {
            continue;
        }
        let o = guarded_check::<P>(&mut ctx, &case);
        if let Some(f) = tally.record(&case, &o, true) {
            violation = Some(ViolationReport {
                sig: f.sig,
                detail: f.detail,
                case: serde_json::to_value(&case).unwrap(),
            });
            break;
        }
    }

    // 2. random search
    // DV_CASES=<n>: override the number of random cases (debugging, focused runs; never used by the registered commands)
    let total = std::env::var("DV_CASES").ok().and_then(|s| s.parse::<u64>().ok()).unwrap_or_else(|| P::cases(tier));
    let my_cases = total / workers as u64 + if (index as u64) < total % workers as u64 { 1 } else { 0 };
    if violation.is_none() && my_cases > 0 {
        let config = Config {
            cases: my_cases.min(u32::MAX as u64) as u32,
            failure_persistence: None,
            rng_seed: RngSeed::Fixed(derive_seed(seed, P::ID, tier, index)),
            rng_algorithm: RngAlgorithm::ChaCha,
            max_shrink_iters: 3000,
            // cheap checks shrink for at most 3000 iterations; slow cases (live nodes, crash enumeration) stop after three minutes
            max_shrink_time: 180_000,
            fork: false,
            timeout: 0,
            verbose: 0,
            max_local_rejects: 65_536,
            max_global_rejects: 65_536,
            source_file: None,
            test_name: None,
            ..Config::default()
        };
        let mut runner = TestRunner::new(config);
        let strategy = P::strategy(tier);
        let last_fail: std::cell::RefCell<Option<Failure>> = std::cell::RefCell::new(None);
        let res = {
            let ctx = std::cell::RefCell::new(&mut ctx);
            let tally = std::cell::RefCell::new(&mut tally);
            runner.run(&strategy, |case| {
                let o = guarded_check::<P>(&mut ctx.borrow_mut(), &case);
                let mut tally = tally.borrow_mut();
                match tally.record(&case, &o, false) {
                    None => Ok(()),
                    Some(f) => {
                        tally.stop_counting = true;
                        *last_fail.borrow_mut() = Some(f.clone());
                        Err(TestCaseError::fail(f.sig))
                    }
                }
            })
        };
        match res {
            Ok(()) => {}
            Err(TestError::Fail(_reason, case)) => {
                // re-run the minimal case once more to get its own signature/detail
                let o = guarded_check::<P>(&mut ctx, &case);
                let f = o
                    .failure
                    .or_else(|| last_fail.borrow().clone())
                    .unwrap_or_else(|| Failure::new("unknown", "failure did not reproduce on the shrunk case"));
                violation = Some(ViolationReport {
                    sig: f.sig,
                    detail: f.detail,
                    case: serde_json::to_value(&case).unwrap(),
                });
            }
            Err(TestError::Abort(reason)) => {
                eprintln!("worker {index}: proptest aborted: {reason}");
                tally.report.wall_s = started.elapsed().as_secs_f64();
                let _ = std::fs::write(out, serde_json::to_vec(&tally.report).unwrap());
                return 2;
            }
        }
    }
    tally.report.violation = violation;
    tally.report.wall_s = started.elapsed().as_secs_f64();
    std::fs::write(out, serde_json::to_vec(&tally.report).unwrap()).expect("write worker report");
    drop(ctx);
    if tally.report.violation.is_some() {
        1
    } else {
        0
    }
}

// ------------------------------------------------------------------------------------------------
// replay

pub fn replay_file<P: Prop>(ctx: &mut Ctx, path: &Path) -> Result<Outcome, String> {
    let text = std::fs::read_to_string(path).map_err(|e| format!("read {path:?}: {e}"))?;
    let rf: ReplayFile = serde_json::from_str(&text).map_err(|e| format!("parse {path:?}: {e}"))?;
    if rf.property != P::ID {
        return Err(format!("{path:?} is a replay for {}, not {}", rf.property, P::ID));
    }
    let case: P::Case =
        serde_json::from_value(rf.case).map_err(|e| format!("decode case in {path:?}: {e}"))?;
    Ok(guarded_check::<P>(ctx, &case))
}

pub fn run_replay<P: Prop>(path: &Path) -> i32 {
    install_panic_hook();
    let mut ctx = Ctx::new(Tier::Quick);
    let known = load_known(P::ID);
    match replay_file::<P>(&mut ctx, path) {
        Err(e) => {
            eprintln!("{e}");
            2
        }
        Ok(o) => match o.failure {
            None => {
                println!("replay {}: property {} held (classes {:?})", path.display(), P::ID, o.classes);
                0
            }
            Some(f) => {
                if let Some(k) = known.iter().find(|k| k.sig == f.sig) {
                    println!("KNOWN-FINDING: property={} {}", P::ID, k.what);
                    println!("  signature: {}\n  detail: {}", f.sig, f.detail);
                    0
                } else {
                    println!("  signature: {}\n  detail: {}", f.sig, f.detail);
                    println!("VIOLATION property={} replay={}", P::ID, path.display());
                    1
                }
            }
        },
    }
}

// ------------------------------------------------------------------------------------------------
// parent

fn replay_dir(id: &str) -> PathBuf {
    verif_dir().join("replays").join(id)
}

fn failures_dir(id: &str) -> PathBuf {
    verif_dir().join("failures").join(id)
}

pub fn run_parent<P: Prop>(tier: Tier) -> i32 {
    install_panic_hook();
    let started = Instant::now();
    let seed = env_seed();
    let known = load_known(P::ID);
    let mut violations: Vec<(String, String, PathBuf)> = vec![]; // sig, detail, replay path
    let mut known_hits: BTreeMap<String, (u64, String)> = BTreeMap::new();
    let mut inconclusive = false;

    // 1. replay tier
    let mut replayed = 0u64;
    let mut replay_samples: Vec<Value> = vec![];
    {
        let mut ctx = Ctx::new(tier);
        let mut files: Vec<PathBuf> = std::fs::read_dir(replay_dir(P::ID))
            .map(|d| d.filter_map(|e| e.ok()).map(|e| e.path()).collect())
            .unwrap_or_default();
        files.retain(|p| p.extension().map(|e| e == "json").unwrap_or(false));
        files.sort();
        for f in files {
            match replay_file::<P>(&mut ctx, &f) {
                Err(e) => {
                    eprintln!("replay error: {e}");
                    inconclusive = true;
                }
                Ok(o) => {
                    replayed += 1;
                    if replay_samples.len() < 2 {
                        replay_samples.push(json!({"replayed_file": f.file_name().map(|s| s.to_string_lossy().to_string())}));
                    }
                    if let Some(fl) = o.failure {
                        if known.iter().any(|k| k.sig == fl.sig) {
                            let e = known_hits.entry(fl.sig.clone()).or_insert((0, fl.detail.clone()));
                            e.0 += 1;
                        } else {
                            violations.push((fl.sig, fl.detail, f.clone()));
                        }
                    }
                }
            }
        }
    }

    // 2. workers
    let workers = P::workers(tier).max(1);
    let exe = std::env::current_exe().expect("current exe");
    let out_dir = std::env::temp_dir().join(format!("dv-parent-{}", std::process::id()));
    std::fs::create_dir_all(&out_dir).expect("out dir");
    let mut children = vec![];
    if violations.is_empty() {
        for i in 0..workers {
            let out = out_dir.join(format!("w{i}.json"));
            let child = Command::new(&exe)
                .arg("worker")
                .arg(P::ID)
                .arg("--tier")
                .arg(tier.name())
                .arg("--seed")
                .arg(seed.to_string())
                .arg("--index")
                .arg(i.to_string())
                .arg("--workers")
                .arg(workers.to_string())
                .arg("--out")
                .arg(&out)
                .stdin(Stdio::null())
                .stdout(Stdio::null())
                .stderr(Stdio::piped())
                .spawn()
                .expect("spawn worker");
            children.push((i, child, out));
        }
    }
    let budget = Duration::from_secs(P::worker_budget_s(tier));
    let mut reports: Vec<WorkerReport> = vec![];
    // all workers are polled together; once one of them has reported a violation the others are redundant (they would
    // only find it again, or sit in a case that the same defect makes hang) and are stopped after a grace period
    const GRACE_AFTER_VIOLATION: Duration = Duration::from_secs(45);
    let mut violation_seen: Option<Instant> = None;
    let mut alive: Vec<Option<(usize, std::process::Child, PathBuf)>> = children.into_iter().map(Some).collect();
    while alive.iter().any(|c| c.is_some()) {
        let over_budget = started.elapsed() > budget;
        let grace_over = violation_seen.map(|t| t.elapsed() > GRACE_AFTER_VIOLATION).unwrap_or(false);
        for slot in alive.iter_mut() {
            let Some((i, child, out)) = slot.as_mut() else { continue };
            let status = match child.try_wait() {
                Ok(Some(st)) => Some(Some(st)),
                Ok(None) => {
                    if over_budget || grace_over {
                        let _ = child.kill();
                        let _ = child.wait();
                        Some(None)
                    } else {
                        None
                    }
                }
                Err(_) => Some(None),
            };
            let Some(status) = status else { continue };
            let mut stderr = String::new();
            if let Some(mut e) = child.stderr.take() {
                let _ = e.read_to_string(&mut stderr);
            }
            match status {
                None if grace_over && !over_budget => {
                    eprintln!("worker {i}: stopped {GRACE_AFTER_VIOLATION:?} after another worker reported a violation");
                }
                None => {
                    eprintln!("worker {i}: exceeded the wall budget of {budget:?} – killed (inconclusive)");
                    inconclusive = true;
                }
                Some(st) => {
                    let code = st.code().unwrap_or(-1);
                    match std::fs::read(&*out).ok().and_then(|b| serde_json::from_slice::<WorkerReport>(&b).ok()) {
                        Some(r) => {
                            if code == 2 {
                                inconclusive = true;
                            }
                            if r.violation.is_some() && violation_seen.is_none() {
                                violation_seen = Some(Instant::now());
                            }
                            reports.push(r)
                        }
                        None => {
                            eprintln!("worker {i}: exit {code} without a report (inconclusive)\n{stderr}");
                            inconclusive = true;
                        }
                    }
                }
            }
            *slot = None;
        }
        std::thread::sleep(Duration::from_millis(20));
    }
    let _ = std::fs::remove_dir_all(&out_dir);

    // 3. merge
    let mut evaluations = replayed;
    let mut enumerated = 0;
    let mut nontrivial: BTreeSet<u64> = BTreeSet::new();
    let mut samples: Vec<Value> = vec![];
    let mut classes: BTreeMap<String, u64> = BTreeMap::new();
    let mut counters: BTreeMap<String, u64> = BTreeMap::new();
    for r in &reports {
        for (k, v) in &r.counters {
            *counters.entry(k.clone()).or_insert(0) += v;
        }
        evaluations += r.evaluations;
        enumerated += r.enumerated;
        nontrivial.extend(r.nontrivial_hashes.iter().copied());
        for s in &r.samples {
            if samples.len() < 4 {
                samples.push(s.clone());
            }
        }
        for (k, v) in &r.classes {
            *classes.entry(k.clone()).or_insert(0) += v;
        }
        for (k, (n, d)) in &r.known {
            let e = known_hits.entry(k.clone()).or_insert((0, d.clone()));
            e.0 += n;
        }
        if let Some(v) = &r.violation {
            // save the replay file
            let dir = failures_dir(P::ID);
            let _ = std::fs::create_dir_all(&dir);
            let rf = ReplayFile {
                property: P::ID.to_string(),
                note: format!("found by the {} tier, VERIF_SEED={}", tier.name(), seed),
                sig: v.sig.clone(),
                detail: v.detail.clone(),
                case: v.case.clone(),
            };
            let bytes = serde_json::to_vec_pretty(&rf).unwrap();
            let name = format!("{:016x}.json", hash_case(&serde_json::to_vec(&v.case).unwrap()));
            let path = dir.join(name);
            let _ = std::fs::write(&path, bytes);
            violations.push((v.sig.clone(), v.detail.clone(), path));
        }
    }
    if samples.is_empty() {
        samples = replay_samples;
    }
    let excluded_known: u64 = known_hits.values().map(|v| v.0).sum();

    // 4. evidence
    let wall = started.elapsed().as_secs_f64();
    let evidence = json!({
        "property_id": P::ID,
        "tier": tier.name(),
        "seed": seed,
        "level": P::LEVEL,
        "coverage": {
            "evaluations": evaluations,
            "distinct_nontrivial": nontrivial.len(),
            "rule": P::rule(),
            "samples": samples,
            "classes": classes,
            "counters": counters,
            "replayed_saved_cases": replayed,
            "enumerated_exhaustively": enumerated,
            "exhaustive": false,
            "excluded_known": excluded_known,
            "known_finding_hits": known_hits.iter().map(|(k, v)| json!({"signature": k, "count": v.0, "example": v.1})).collect::<Vec<_>>(),
            "workers": workers,
            "inconclusive": inconclusive,
        },
        "assumptions": P::assumptions(),
        "wall_s": wall,
        "violations": violations.len(),
    });
    let ev_dir = verif_dir().join("evidence");
    let _ = std::fs::create_dir_all(&ev_dir);
    std::fs::write(
        ev_dir.join(format!("{}.json", P::ID)),
        serde_json::to_vec_pretty(&evidence).unwrap(),
    )
    .expect("write evidence");

    // 5. report
    println!(
        "{} {}: {} evaluations ({} replayed, {} enumerated), {} distinct non-trivial, {} excluded as known, {:.1}s",
        P::ID,
        tier.name(),
        evaluations,
        replayed,
        enumerated,
        nontrivial.len(),
        excluded_known,
        wall
    );
    for (k, v) in &counters {
        println!("  counter {k}: {v}");
    }
    let mut top: Vec<_> = classes.iter().collect();
    top.sort_by(|a, b| b.1.cmp(a.1));
    for (k, v) in top.iter().take(24) {
        println!("  class {k}: {v}");
    }
    for (sig, (n, _)) in &known_hits {
        let what = known.iter().find(|k| &k.sig == sig).map(|k| k.what.clone()).unwrap_or_default();
        println!("KNOWN-FINDING: property={} {} [signature={} hits={}]", P::ID, what, sig, n);
    }
    if !violations.is_empty() {
        // report the smallest saved case per signature
        violations.sort_by_key(|(_, _, p)| std::fs::metadata(p).map(|m| m.len()).unwrap_or(u64::MAX));
        let mut seen = BTreeSet::new();
        for (sig, detail, path) in &violations {
            if !seen.insert(sig.clone()) {
                continue;
            }
            println!("  signature: {sig}");
            println!("  detail: {detail}");
            println!("VIOLATION property={} replay={}", P::ID, path.display());
        }
        return 1;
    }
    if inconclusive {
        println!("INCONCLUSIVE property={} (a worker hung, aborted or a replay file was unreadable)", P::ID);
        return 2;
    }
    0
}

// ------------------------------------------------------------------------------------------------
// small strategy helpers shared by properties

/// Map a u16 index monotonically onto 0..len (so that shrinking towards 0 shrinks the index).
pub fn idx(i: u16, len: usize) -> usize {
    if len == 0 {
        0
    } else {
        ((i as usize) * len) >> 16
    }
}

pub fn boxed<S: Strategy + 'static>(s: S) -> BoxedStrategy<S::Value> {
    s.boxed()
}
