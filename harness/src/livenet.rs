//! Real nodes on the loopback network: endpoint + gossip + blob store + the `Docs` engine behind a protocol router, driven
//! through the client API (`DocsApi` / `Doc`) - the layer a user of the crate actually talks to. Used by the "live swarm"
//! family of C04 and by the client-event family of C12.
//!
//! The network and the tokio scheduler decide the interleaving, so a run of this family is *not* a pure function of the seed.
//! Every verdict is therefore built so that it does not depend on timing:
//!  * safety invariants (an entry nobody wrote, a duplicate or bogus event) are judged on what was observed;
//!  * convergence is judged only on a **stable sweep**: every pair of a connected pair set reported a successful session that
//!    *started* after the sweep began, and no node's contents changed between the beginning and the end of the sweep. The
//!    contents of a replica only move upwards in the merge order, so equal contents before and after mean constant contents,
//!    each of those sessions therefore ran to completion between two constant replicas - which is exactly the premise of the
//!    property ("once sessions are run to completion along any connected set of pairs"). If no stable sweep is reached within
//!    the time budget the case is counted as `closing-not-reached` and not judged on convergence (never a violation).

use std::{
    collections::{BTreeMap, BTreeSet},
    path::PathBuf,
    sync::{Arc, Mutex},
    time::{Duration, SystemTime},
};

use futures_util::StreamExt;
use iroh::{endpoint::presets, protocol::Router, Endpoint, EndpointAddr, SecretKey};
use iroh_docs::{
    api::{protocol::{AddrInfoOptions, ShareMode}, Doc},
    engine::LiveEvent,
    protocol::Docs,
    store::Query,
    verif, Capability, DocTicket, Entry, NamespaceId, NamespaceSecret,
};
use serde::{Deserialize, Serialize};

use crate::{
    common::*,
    engine::{idx, Ctx, Outcome},
    gen::Pools,
};

#[derive(Serialize, Deserialize, Clone, Debug)]
pub enum LStep {
    Write { r: u8, a: u16, k: u16, c: u8 },
    Delete { r: u8, a: u16, k: u16 },
    /// stop syncing the document at node r (it stays open for the client)
    Leave { r: u8 },
    /// start syncing again, naming the peers selected by the bit mask
    Join { r: u8, peers: u8 },
    /// shut the node down and start it again from its directory (file-backed nodes only)
    Restart { r: u8 },
    /// let the network work for a few milliseconds
    Wait { ms: u8 },
}

#[derive(Serialize, Deserialize, Clone, Debug)]
pub struct LiveCase {
    pub n: u8,
    /// file-backed nodes (can be restarted)
    pub files: Vec<bool>,
    /// nodes that only get the read capability (never node 0)
    pub read_only: Vec<bool>,
    /// clock offsets in seconds
    pub offsets: Vec<i16>,
    pub pools: Pools,
    pub steps: Vec<LStep>,
    /// which earlier node each node names in its ticket (index into the nodes before it)
    pub introducer: Vec<u8>,
    pub path: Vec<u16>,
    /// per node: a download policy set before the node starts syncing; filters are (exact, key index, bytes cut off the end)
    #[serde(default)]
    pub policies: Vec<Option<(bool, Vec<(bool, u16, u8)>)>>,
}

pub struct LiveNode {
    pub secret: SecretKey,
    pub dir: Option<PathBuf>,
    pub router: Router,
    pub docs: Docs,
    pub blobs: iroh_blobs::api::Store,
    pub doc: Option<Doc>,
    pub events: Arc<Mutex<Vec<LiveEvent>>>,
    pub drain: Option<tokio::task::JoinHandle<()>>,
    pub syncing: bool,
}

pub async fn spawn_node(secret: SecretKey, dir: Option<PathBuf>) -> R<(Router, Docs, iroh_blobs::api::Store)> {
    let endpoint = es(Endpoint::builder(presets::Minimal).secret_key(secret).bind().await)?;
    let gossip = iroh_gossip::net::Gossip::builder().spawn(endpoint.clone());
    let blobs = iroh_blobs::store::mem::MemStore::new();
    let blobs = (*blobs).clone();
    let builder = match &dir {
        Some(d) => {
            es(std::fs::create_dir_all(d))?;
            Docs::persistent(d.clone())
        }
        None => Docs::memory(),
    };
    let docs = es(builder.spawn(endpoint.clone(), blobs.clone(), gossip.clone()).await)?;
    let router = Router::builder(endpoint)
        .accept(iroh_blobs::ALPN, iroh_blobs::BlobsProtocol::new(&blobs, None))
        .accept(iroh_docs::ALPN, docs.clone())
        .accept(iroh_gossip::ALPN, gossip)
        .spawn();
    Ok((router, docs, blobs))
}

impl LiveNode {
    pub fn addr(&self) -> EndpointAddr {
        self.router.endpoint().addr()
    }
    pub fn id(&self) -> iroh::PublicKey {
        self.router.endpoint().id()
    }
    /// subscribe and keep draining into `events` (the subscription channel is bounded: an undrained client blocks the node)
    pub async fn subscribe(&mut self) -> R<()> {
        let doc = self.doc.as_ref().ok_or("no doc")?;
        let mut stream = es(doc.subscribe().await)?;
        let sink = self.events.clone();
        if let Some(h) = self.drain.take() {
            h.abort();
        }
        self.drain = Some(tokio::spawn(async move {
            while let Some(ev) = stream.next().await {
                if let Ok(ev) = ev {
                    sink.lock().unwrap().push(ev);
                }
            }
        }));
        Ok(())
    }
    pub async fn dump(&self) -> R<Vec<Entry>> {
        let doc = self.doc.as_ref().ok_or("no doc")?;
        let stream = es(doc.get_many(Query::all().include_empty()).await)?;
        tokio::pin!(stream);
        let mut out = vec![];
        while let Some(e) = stream.next().await {
            out.push(es(e)?);
        }
        out.sort_by(|a, b| (a.author().as_bytes(), a.key()).cmp(&(b.author().as_bytes(), b.key())));
        Ok(out)
    }
    pub async fn stop(mut self) {
        if let Some(h) = self.drain.take() {
            h.abort();
        }
        let _ = tokio::time::timeout(Duration::from_secs(20), self.router.shutdown()).await;
    }
}

pub fn describe_entry(e: &Entry) -> String {
    format!(
        "(a{} {:?} @{} {})",
        author_index(&e.author()).map(|i| i.to_string()).unwrap_or_else(|| "?".into()),
        String::from_utf8_lossy(e.key()),
        e.timestamp() as i128 - T0 as i128,
        if e.content_len() == 0 { "deleted".to_string() } else { e.content_hash().to_hex()[..6].to_string() }
    )
}
pub fn describe_entries(es: &[Entry]) -> String {
    format!("[{}]", es.iter().map(describe_entry).collect::<Vec<_>>().join(", "))
}

/// What a failure of this family is reported as.
pub struct Sigs {
    pub prefix: &'static str,
}

const STEP_TIMEOUT: Duration = Duration::from_secs(30);

async fn with_timeout<T>(what: &str, f: impl std::future::Future<Output = T>) -> R<T> {
    match tokio::time::timeout(STEP_TIMEOUT, f).await {
        Ok(x) => Ok(x),
        Err(_) => Err(format!("LIVE-TIMEOUT: {what} did not answer within {STEP_TIMEOUT:?}")),
    }
}

/// Runs one live case. `Err("LIVE-TIMEOUT…")` = the harness could not get an answer in time (not judged).
pub fn run_live(ctx: &mut Ctx, c: &LiveCase, o: &mut Outcome, id: &'static str) -> R<()> {
    let scratch: Vec<Option<PathBuf>> = (0..5).map(|i| if c.files.get(i).copied().unwrap_or(false) { Some(ctx.fresh_path("livenode")) } else { None }).collect();
    let res = ctx.rt.block_on(run_live_async(c, o, id, &scratch));
    verif::set_clock(None);
    for d in scratch.into_iter().flatten() {
        let _ = std::fs::remove_dir_all(d);
    }
    res
}

async fn run_live_async(c: &LiveCase, o: &mut Outcome, id: &'static str, scratch: &[Option<PathBuf>]) -> R<()> {
    let n = c.n.clamp(2, 4) as usize;
    let keys = c.pools.keys();
    let authors = c.pools.authors();
    let nssec: NamespaceSecret = namespace(c.pools.ns).clone();
    let ns: NamespaceId = nssec.id();
    let read_only: Vec<bool> = (0..n).map(|i| i > 0 && c.read_only.get(i).copied().unwrap_or(false)).collect();
    let clock = |r: usize, step: usize| -> u64 { (T0 as i64 + 1_000_000 * c.offsets.get(r).copied().unwrap_or(0) as i64 + 10 + step as i64) as u64 };
    verif::set_clock(Some(clock(0, 0)));
    let policies: Vec<Option<crate::props::c15::PSpec>> = (0..n)
        .map(|i| {
            c.policies.get(i).cloned().flatten().map(|(nothing_except, fs)| crate::props::c15::PSpec {
                nothing_except,
                filters: fs
                    .iter()
                    .map(|(exact, k, cut)| {
                        let mut bytes = keys[idx(*k, keys.len())].clone();
                        bytes.truncate(bytes.len().saturating_sub(*cut as usize));
                        crate::props::c15::FSpec { exact: *exact, bytes }
                    })
                    .collect(),
            })
        })
        .collect();
    let selected = |node: usize, key: &[u8]| -> bool { policies[node].as_ref().map(|p| crate::props::c15::oracle(p, key)).unwrap_or(true) };
    // content a node added itself (local writes), per node
    let mut had_content: Vec<BTreeSet<[u8; 32]>> = vec![BTreeSet::new(); n];

    // ---- start the nodes; node 0 creates the document, node i > 0 imports a ticket naming an earlier node
    let mut nodes: Vec<LiveNode> = vec![];
    for i in 0..n {
        let mut seed = [0x40 + i as u8; 32];
        seed[0] = c.pools.ns;
        let secret = SecretKey::from_bytes(&seed);
        let (router, docs, blobs) = spawn_node(secret.clone(), scratch[i].clone()).await?;
        for a in &authors {
            es(docs.author_import(author(*a).clone()).await)?;
        }
        let mut node = LiveNode { secret, dir: scratch[i].clone(), router, docs, blobs, doc: None, events: Default::default(), drain: None, syncing: true };
        if i == 0 {
            let doc = es(node.docs.import_namespace(Capability::Write(nssec.clone())).await)?;
            node.doc = Some(doc);
            node.subscribe().await?;
            if let Some(p) = &policies[i] {
                es(node.doc.as_ref().unwrap().set_download_policy(crate::props::c15::to_policy(p)).await)?;
            }
            es(node.doc.as_ref().unwrap().start_sync(vec![]).await)?;
        } else {
            let intro = c.introducer.get(i).copied().unwrap_or(0) as usize % i;
            let capability = if read_only[i] { Capability::Read(ns) } else { Capability::Write(nssec.clone()) };
            // the ticket comes from the introducer's own `share` (checked against what we expect), the capability is ours
            // a read-only introducer can only share read access (checked: asking it for write access must fail)
            let mode_read = read_only[i] || read_only[intro];
            if read_only[intro] {
                if let Ok(t) = with_timeout("share", nodes[intro].doc.as_ref().unwrap().share(ShareMode::Write, AddrInfoOptions::RelayAndAddresses)).await? {
                    o.fail(format!("{id}/live-read-only-node-shared-write-access"), format!("node {intro} holds only the read capability but share(Write) returned a ticket of kind {}", crate::act::kind_name(t.capability.kind())));
                    break;
                }
            }
            let shared = es(with_timeout("share", nodes[intro].doc.as_ref().unwrap().share(if mode_read { ShareMode::Read } else { ShareMode::Write }, AddrInfoOptions::RelayAndAddresses)).await?)?;
            let want_kind = if mode_read { "read" } else { "write" };
            if shared.capability.id() != ns || !crate::act::kind_name(shared.capability.kind()).eq_ignore_ascii_case(want_kind) {
                o.fail(format!("{id}/live-ticket"), format!("share() at node {intro} returned a ticket for {:?} of kind {}, asked for {want_kind}", shared.capability.id(), crate::act::kind_name(shared.capability.kind())));
                break;
            }
            let ticket = DocTicket { capability, nodes: shared.nodes.clone() };
            let doc = es(with_timeout("import", node.docs.import_namespace(ticket.capability.clone())).await?)?;
            node.doc = Some(doc);
            node.subscribe().await?;
            if let Some(p) = &policies[i] {
                es(node.doc.as_ref().unwrap().set_download_policy(crate::props::c15::to_policy(p)).await)?;
            }
            es(with_timeout("start_sync", node.doc.as_ref().unwrap().start_sync(ticket.nodes)).await?)?;
        }
        nodes.push(node);
    }

    // ---- the history
    let mut written: Vec<Entry> = vec![];
    // writes the client API reported as failed although the replica had applied them: `set_bytes` inserts and then reads the
    // entry back, and reports "failed to get entry after insertion" when a newer entry or deletion from another node arrived
    // in between (observed on the unchanged tree; the entry was applied, announced and broadcast, and is dominated by what
    // superseded it, so it does not change the merge). Such entries may legitimately show up in events and at other nodes.
    let mut applied_but_reported_failed: Vec<Vec<Entry>> = vec![vec![]; n];
    let mut written_by: Vec<usize> = vec![];
    // what a node held when it came back from a restart: its events may have died with the old incarnation's subscription
    let mut held_at_restart: Vec<Vec<Entry>> = vec![vec![]; n];
    let mut local_ok: Vec<Vec<Entry>> = vec![vec![]; n];
    let mut restarts = 0;
    let mut left_any = false;
    let mut leaves: Vec<usize> = vec![0; n];
    let mut ro_refused = 0;
    if !o.failed() {
        'steps: for (si, s) in c.steps.iter().enumerate() {
            match s {
                LStep::Write { r, a, k, .. } | LStep::Delete { r, a, k } => {
                    let ri = *r as usize % n;
                    let cc = if let LStep::Write { c, .. } = s { 1 + (*c % 3) } else { 0 };
                    let now = clock(ri, si + 1);
                    verif::set_clock(Some(now));
                    let au = authors[idx(*a, authors.len())];
                    let key = keys[idx(*k, keys.len())].clone();
                    // content is unique per (content class, key), so that "this blob is here" can be traced to the entries naming it
                    let value: Vec<u8> = if cc == 0 { vec![] } else { [&[b'0' + cc][..], &key[..]].concat() };
                    let want: Entry = if cc == 0 {
                        sign(&nssec, &ESpec { a: au, k: key.clone(), t: now, c: 0 }).into()
                    } else {
                        Entry::new(iroh_docs::RecordIdentifier::new(ns, author(au).id(), &key), iroh_docs::Record::new(iroh_blobs::Hash::new(&value), value.len() as u64, now))
                    };
                    let doc = nodes[ri].doc.as_ref().unwrap();
                    let aid = author(au).id();
                    if cc != 0 {
                        // set_bytes adds the content to the node's own blob store before it tries to insert the entry:
                        // the blob is there even when the write is refused (read-only node, something newer held)
                        had_content[ri].insert(*want.content_hash().as_bytes());
                    }
                    let res: Result<(), String> = if cc == 0 {
                        with_timeout("del", doc.del(aid, key.clone())).await?.map(|_| ()).map_err(|e| format!("{e:?}"))
                    } else {
                        with_timeout("set_bytes", doc.set_bytes(aid, key.clone(), value.clone())).await?.map(|_| ()).map_err(|e| format!("{e:?}"))
                    };
                    match res {
                        Ok(()) => {
                            if read_only[ri] {
                                o.fail(format!("{id}/live-read-only-node-wrote"), format!("step {si} {:?}: node {ri} holds only the read capability but the write succeeded", s));
                                break 'steps;
                            }
                            written.push(want.clone());
                            written_by.push(ri);
                            local_ok[ri].push(want);
                        }
                        Err(e) => {
                            if std::env::var("DV_DEBUG").is_ok() {
                                eprintln!("step {si} {s:?} at node {ri}: refused: {e}");
                            }
                            if read_only[ri] {
                                ro_refused += 1;
                            } else if e.contains("failed to get entry after insertion") {
                                written.push(want.clone());
                                written_by.push(ri);
                                applied_but_reported_failed[ri].push(want.clone());
                                o.class("live/write-applied-but-reported-failed(superseded-before-read-back)");
                            } else if !(e.contains("newer") || e.contains("Newer")) {
                                // a writable node refuses only when it already holds something newer (another node's clock is ahead)
                                let d = nodes[ri].dump().await?;
                                let superseded = d.iter().any(|h| h.author() == want.author() && want.key().starts_with(h.key()) && (h.timestamp(), h.content_hash()) >= (want.timestamp(), want.content_hash()));
                                if !superseded {
                                    o.fail(format!("{id}/live-write-refused"), format!("step {si} {:?}: node {ri} refused the write ({e}) although it holds nothing newer: {}", s, describe_entries(&d)));
                                    break 'steps;
                                }
                            }
                        }
                    }
                }
                LStep::Leave { r } => {
                    let ri = *r as usize % n;
                    if nodes[ri].syncing {
                        es(with_timeout("leave", nodes[ri].doc.as_ref().unwrap().leave()).await?)?;
                        nodes[ri].syncing = false;
                        left_any = true;
                        leaves[ri] += 1;
                    }
                }
                LStep::Join { r, peers } => {
                    let ri = *r as usize % n;
                    let addrs: Vec<EndpointAddr> = (0..n).filter(|j| *j != ri && (peers >> j) & 1 == 1).map(|j| nodes[j].addr()).collect();
                    es(with_timeout("start_sync", nodes[ri].doc.as_ref().unwrap().start_sync(addrs)).await?)?;
                    nodes[ri].syncing = true;
                }
                LStep::Restart { r } => {
                    let ri = *r as usize % n;
                    if nodes[ri].dir.is_none() {
                        continue;
                    }
                    let before = nodes[ri].dump().await?;
                    let old = nodes.remove(ri);
                    let (secret, dir, events) = (old.secret.clone(), old.dir.clone(), old.events.clone());
                    // the blob store of these nodes lives in memory: content fetched before the restart is gone afterwards
                    had_content[ri].clear();
                    old.stop().await;
                    let (router, docs, blobs) = spawn_node(secret.clone(), dir.clone()).await?;
                    let mut node = LiveNode { secret, dir, router, docs, blobs, doc: None, events, drain: None, syncing: false };
                    let doc = es(with_timeout("open", node.docs.open(ns)).await?)?.ok_or("document gone after restart")?;
                    node.doc = Some(doc);
                    node.subscribe().await?;
                    let after = node.dump().await?;
                    nodes.insert(ri, node);
                    restarts += 1;
                    held_at_restart[ri].extend(after.iter().cloned());
                    // (an entry may still arrive between the read and the shutdown: after the restart nothing held before may be
                    // missing unless something at least as new at its key or a prefix of it is there instead)
                    let lost = before.iter().find(|e| !after.iter().any(|h| h.author() == e.author() && e.key().starts_with(h.key()) && (h.timestamp(), h.content_hash()) >= (e.timestamp(), e.content_hash())));
                    if let Some(lost) = lost {
                        o.fail(format!("{id}/live-restart-lost-an-entry"), format!("step {si}: node {ri} held {} before the restart and {} after it: {} is gone and nothing newer replaced it", describe_entries(&before), describe_entries(&after), describe_entry(lost)));
                        break 'steps;
                    }
                }
                LStep::Wait { ms } => {
                    tokio::time::sleep(Duration::from_millis(*ms as u64)).await;
                }
            }
            // no node ever holds an entry that nobody wrote
            for ri in 0..n {
                let d = nodes[ri].dump().await?;
                if let Some(bad) = d.iter().find(|e| !written.contains(e)) {
                    o.fail(format!("{id}/live-entry-nobody-wrote"), format!("step {si} {:?}: node {ri} holds {} which no node wrote", s, describe_entry(bad)));
                    break 'steps;
                }
            }
        }
    }

    // ---- closing: everybody syncs again, then sweeps of complete sessions along a connected pair set
    let mut stable = false;
    if !o.failed() {
        verif::set_clock(Some(clock(0, c.steps.len() + 2).max(T0 + 1_000_000 * 290)));
        // (the receivers' clock only matters for the ten-minute future bound: offsets stay within +-290 s)
        verif::set_clock(Some(T0 + 10 + c.steps.len() as u64 + 2));
        let mut order: Vec<usize> = (0..n).collect();
        order.sort_by_key(|i| (c.path.get(*i).copied().unwrap_or(0), *i));
        let pairs: Vec<(usize, usize)> = order.windows(2).map(|w| (w[0], w[1])).collect();
        for ri in 0..n {
            let addrs: Vec<EndpointAddr> = (0..n).filter(|j| *j != ri).map(|j| nodes[j].addr()).collect();
            es(with_timeout("start_sync", nodes[ri].doc.as_ref().unwrap().start_sync(addrs)).await?)?;
            nodes[ri].syncing = true;
        }
        let deadline = tokio::time::Instant::now() + Duration::from_secs(40);
        let mut sweeps = 0u64;
        'sweeps: while tokio::time::Instant::now() < deadline {
            sweeps += 1;
            let mut d0 = vec![];
            for node in &nodes {
                d0.push(node.dump().await?);
            }
            let t0 = SystemTime::now();
            let mut all_pairs_done = true;
            let mut sweep_sessions: Vec<(usize, usize, usize, usize)> = vec![];
            for (a, b) in &pairs {
                let peer = nodes[*b].id();
                // How many successful sessions with b must node a report (finished after the sweep began) before one of them
                // is certain to have *begun* after the sweep began? `started` in the event is the time the per-peer slot was
                // taken, and a leave + re-join wipes the slots while dials made before the leave are still in flight; their
                // completions are then attributed to whatever occupies the slot (observed on the unchanged tree; outside what
                // C11 quantifies over). So `started` is not used. Seen from a, the sessions with b that were in flight when the
                // sweep began are at most one in the slot plus one orphan per leave of either node; one more than that many
                // completions means at least one session ran entirely inside the sweep.
                let need = 2 + leaves[*a] + leaves[*b];
                let mut seen: Vec<(usize, usize)> = vec![];
                let pair_deadline = tokio::time::Instant::now() + Duration::from_secs(10);
                let mut attempt = 0;
                while seen.len() < need && tokio::time::Instant::now() < pair_deadline {
                    if attempt % 10 == 0 {
                        es(with_timeout("start_sync", nodes[*a].doc.as_ref().unwrap().start_sync(vec![nodes[*b].addr()])).await?)?;
                    }
                    attempt += 1;
                    tokio::time::sleep(Duration::from_millis(5)).await;
                    let evs = nodes[*a].events.lock().unwrap();
                    seen.clear();
                    for ev in evs.iter() {
                        if let LiveEvent::SyncFinished(se) = ev {
                            if se.peer == peer && se.finished >= t0 {
                                if let Ok(d) = &se.result {
                                    seen.push((d.entries_sent, d.entries_received));
                                }
                            }
                        }
                    }
                }
                if seen.len() < need {
                    all_pairs_done = false;
                    break;
                }
                // without leaves the sessions of a pair are strictly sequential (one slot), so the last one began after the
                // first one finished, i.e. inside the sweep
                if leaves[*a] + leaves[*b] == 0 {
                    let (s, r) = *seen.last().unwrap();
                    sweep_sessions.push((*a, *b, s, r));
                }
            }
            if !all_pairs_done {
                continue 'sweeps;
            }
            let mut d1 = vec![];
            for node in &nodes {
                d1.push(node.dump().await?);
            }
            if d0 != d1 {
                continue 'sweeps;
            }
            // a stable sweep: judge
            stable = true;
            o.count("live_closing_sweeps", sweeps);
            let want: Vec<Entry> = {
                // merge of all accepted local writes (signatures do not matter for the merge; re-sign to reuse the model)
                let signed: Vec<_> = written.iter().map(|e| resign(&nssec, e)).collect();
                Model::merge(signed.iter()).dump().into_iter().map(Entry::from).collect()
            };
            for (ri, d) in d1.iter().enumerate() {
                if *d != want {
                    o.fail(
                        format!("{id}/live-not-converged"),
                        format!(
                            "every pair of {:?} completed a session that started after the sweep began and no node changed during the sweep, yet node {ri} holds {} while the merge of all accepted writes is {}",
                            pairs,
                            describe_entries(d),
                            describe_entries(&want)
                        ),
                    );
                    break 'sweeps;
                }
            }
            for (a, b, s, r) in &sweep_sessions {
                if *s != 0 || *r != 0 {
                    let mut trace = String::new();
                    for (ni, node) in nodes.iter().enumerate() {
                        for ev in node.events.lock().unwrap().iter() {
                            if let LiveEvent::SyncFinished(se) = ev {
                                let rel = |t: SystemTime| t.duration_since(t0).map(|d| d.as_millis() as i64).unwrap_or_else(|e| -(e.duration().as_millis() as i64));
                                trace.push_str(&format!("\n   node {ni}: {:?} with {} started {} ms finished {} ms (relative to the sweep) {:?}", se.origin, se.peer.fmt_short(), rel(se.started), rel(se.finished), se.result));
                            }
                        }
                    }
                    o.fail(format!("{id}/live-session-between-equal-nodes-transferred"), format!("session {a}->{b} between two nodes with equal, constant contents {} reports sent {s} received {r}; sessions seen:{trace}", describe_entries(&d1[*a])));
                    break 'sweeps;
                }
            }
            break;
        }
        if !stable && !o.failed() {
            o.class("live/closing-not-reached(not-judged)");
        }
    }

    // ---- client events (what a subscriber of the client API saw)
    if !o.failed() && stable {
        // in-process delivery only from here on: give the streams a moment to drain
        let mut finals = vec![];
        for node in &nodes {
            finals.push(node.dump().await?);
        }
        let deadline = tokio::time::Instant::now() + Duration::from_secs(10);
        loop {
            let mut missing = None;
            for ri in 0..n {
                let evs = nodes[ri].events.lock().unwrap();
                let remote: Vec<&Entry> = evs.iter().filter_map(|e| if let LiveEvent::InsertRemote { entry, .. } = e { Some(entry) } else { None }).collect();
                for e in &finals[ri] {
                    if !local_ok[ri].contains(e) && !remote.contains(&e) && !held_at_restart[ri].contains(e) {
                        missing = Some((ri, e.clone()));
                    }
                }
                let locals = evs.iter().filter(|e| matches!(e, LiveEvent::InsertLocal { entry } if !applied_but_reported_failed[ri].contains(entry))).count();
                if locals < local_ok[ri].len() && missing.is_none() {
                    missing = Some((ri, local_ok[ri][locals].clone()));
                }
            }
            match missing {
                None => break,
                Some((ri, e)) if tokio::time::Instant::now() >= deadline => {
                    o.fail(format!("{id}/live-no-event-for-held-entry"), format!("node {ri} holds {} but its subscriber saw no insert event for it within 10 s of quiescence", describe_entry(&e)));
                    break;
                }
                Some(_) => tokio::time::sleep(Duration::from_millis(20)).await,
            }
        }
    }
    if !o.failed() {
        for ri in 0..n {
            let evs = nodes[ri].events.lock().unwrap().clone();
            let locals: Vec<Entry> = evs.iter().filter_map(|e| if let LiveEvent::InsertLocal { entry } = e { Some(entry.clone()) } else { None }).collect();
            // (events of a node that was restarted keep accumulating in the same list)
            let expect = &local_ok[ri];
            let locals: Vec<Entry> = locals.into_iter().filter(|e| !applied_but_reported_failed[ri].contains(e)).collect();
            let is_prefix = locals.len() <= expect.len() && locals.iter().zip(expect.iter()).all(|(a, b)| a == b);
            if !is_prefix {
                o.fail(format!("{id}/live-local-events"), format!("node {ri}: local insert events {} but the acknowledged local writes were {}", describe_entries(&locals), describe_entries(expect)));
                break;
            }
            let mut seen = BTreeSet::new();
            for ev in &evs {
                if let LiveEvent::InsertRemote { entry, from, .. } = ev {
                    if !written.contains(entry) {
                        o.fail(format!("{id}/live-remote-event-for-entry-nobody-wrote"), format!("node {ri}: remote insert event for {}", describe_entry(entry)));
                        break;
                    }
                    if local_ok[ri].contains(entry) || applied_but_reported_failed[ri].contains(entry) {
                        o.fail(format!("{id}/live-remote-event-for-own-entry"), format!("node {ri}: remote insert event for its own entry {}", describe_entry(entry)));
                        break;
                    }
                    let key = (entry.author().as_bytes().to_vec(), entry.key().to_vec(), entry.timestamp(), *entry.content_hash().as_bytes());
                    if !seen.insert(key) {
                        o.fail(format!("{id}/live-duplicate-remote-event"), format!("node {ri}: two remote insert events for {}", describe_entry(entry)));
                        break;
                    }
                    if !(0..n).any(|j| j != ri && nodes[j].id() == *from) {
                        o.fail(format!("{id}/live-remote-event-from-unknown-peer"), format!("node {ri}: remote insert event for {} names a peer that is not one of the other nodes", describe_entry(entry)));
                        break;
                    }
                }
            }
            if o.failed() {
                break;
            }
        }
    }

    // ---- content: a blob may be at a node only if the node added it itself or an entry naming it arrived under a key the
    // node's download policy selects (C15 at the level of the engine: what is actually fetched)
    if !o.failed() && stable {
        // give selected downloads a moment (their completion is not judged: a provider may be missing)
        let deadline = tokio::time::Instant::now() + Duration::from_millis(1500);
        loop {
            let mut pending = 0;
            for ri in 0..n {
                let evs = nodes[ri].events.lock().unwrap().clone();
                for ev in &evs {
                    if let LiveEvent::InsertRemote { entry, .. } = ev {
                        if entry.content_len() > 0 && selected(ri, entry.key()) && !matches!(nodes[ri].blobs.blobs().has(entry.content_hash()).await, Ok(true)) {
                            pending += 1;
                        }
                    }
                }
            }
            if pending == 0 {
                o.class("live/every-selected-content-arrived");
                break;
            }
            if tokio::time::Instant::now() >= deadline {
                break;
            }
            tokio::time::sleep(Duration::from_millis(50)).await;
        }
        'nodes: for ri in 0..n {
            let evs = nodes[ri].events.lock().unwrap().clone();
            let mut allowed: BTreeSet<[u8; 32]> = had_content[ri].clone();
            for ev in &evs {
                if let LiveEvent::InsertRemote { entry, .. } = ev {
                    if selected(ri, entry.key()) {
                        allowed.insert(*entry.content_hash().as_bytes());
                    }
                }
            }
            let mut excluded_seen = false;
            for e in &written {
                if e.content_len() == 0 || allowed.contains(e.content_hash().as_bytes()) {
                    continue;
                }
                // restarted nodes lost their in-memory blobs; what they wrote before is simply gone, not fetched
                excluded_seen = true;
                if matches!(nodes[ri].blobs.blobs().has(e.content_hash()).await, Ok(true)) {
                    o.fail(
                        format!("{id}/live-content-fetched-against-the-policy"),
                        format!("node {ri} (policy {:?}) holds the content of {} although it never added it itself and no entry naming it arrived under a key its policy selects", policies[ri], describe_entry(e)),
                    );
                    break 'nodes;
                }
            }
            if excluded_seen && policies[ri].is_some() {
                o.class("live/policy-excluded-some-content");
            }
        }
    }

    // ---- classes
    o.class(match n {
        2 => "live/nodes-2",
        3 => "live/nodes-3",
        _ => "live/nodes-4",
    });
    if restarts > 0 {
        o.class("live/restart");
    }
    if left_any {
        o.class("live/leave");
    }
    if ro_refused > 0 {
        o.class("live/read-only-node-refused-a-write");
    }
    let writers: BTreeSet<usize> = written_by.iter().copied().collect();
    let mut conflict = false;
    let mut by_key: BTreeMap<(Vec<u8>, Vec<u8>), BTreeSet<usize>> = BTreeMap::new();
    for (e, w) in written.iter().zip(written_by.iter()) {
        by_key.entry((e.author().as_bytes().to_vec(), e.key().to_vec())).or_default().insert(*w);
    }
    if by_key.values().any(|s| s.len() >= 2) {
        conflict = true;
        o.class("live/same-author-and-key-written-at-two-nodes");
    }
    if stable {
        o.class("live/stable-closing-sweep-judged");
    }
    if stable && writers.len() >= 2 && (conflict || written.iter().any(|e| e.content_len() == 0)) {
        o.nontrivial = true;
    }
    for node in nodes {
        node.stop().await;
    }
    Ok(())
}

/// A `SignedEntry` with the same content as `e` (the model works on signed entries; signatures play no role in the merge).
fn resign(ns: &NamespaceSecret, e: &Entry) -> iroh_docs::SignedEntry {
    let ai = author_index(&e.author()).expect("pool author");
    iroh_docs::SignedEntry::from_entry(e.clone(), ns, author(ai))
}
