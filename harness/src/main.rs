//! dv – property-based verification driver for iroh-docs (see /verif/DESIGN.md).
mod act;
mod common;
mod engine;
mod gen;
mod livenet;
mod netsess;
mod props;
mod targets;
mod wire;

use std::path::PathBuf;

use engine::{run_parent, run_replay, run_worker, Prop, Tier};

macro_rules! for_props {
    ($id:expr, $p:ident => $body:expr) => {{
        for_props!(@go $id, $p, $body, [
            props::c01::C01,
            props::c02::C02,
            props::c04::C04,
            props::c11::C11,
            props::c06::C06,
            props::c08::C08,
            props::c10::C10,
            props::c09::C09,
            props::c12::C12,
            props::c14::C14,
            props::c03::C03,
            props::c16::C16,
            props::c07::C07,
            props::c15::C15,
            props::c18::C18,
            props::c17::C17,
            props::c13::C13,
            props::c05::C05,
        ])
    }};
    (@go $id:expr, $p:ident, $body:expr, [$($t:ty),* $(,)?]) => {{
        let id: &str = $id;
        $( if id == <$t as Prop>::ID { type $p = $t; std::process::exit($body); } )*
        eprintln!("unknown property id {id}");
        std::process::exit(2);
    }};
}

fn arg_value(args: &[String], name: &str) -> Option<String> {
    args.iter().position(|a| a == name).and_then(|i| args.get(i + 1).cloned())
}

fn main() {
    let args: Vec<String> = std::env::args().collect();
    if args.len() < 3 {
        eprintln!("usage: dv run <ID> [--tier quick|thorough] | dv replay <ID> <file> | dv worker <ID> ...");
        std::process::exit(2);
    }
    let cmd = args[1].as_str();
    if cmd == "fuzz-seeds" {
        // write a valid encoding per target and selector, prefixed with the target byte
        let dir = PathBuf::from(&args[2]);
        std::fs::create_dir_all(&dir).expect("seed dir");
        for (t, name) in targets::TARGETS.iter().enumerate() {
            for sel in 0u8..12 {
                let mut v = vec![t as u8];
                v.extend_from_slice(&props::c09::valid_seed(name, sel));
                std::fs::write(dir.join(format!("{name}-{sel}")), v).expect("write seed");
            }
        }
        println!("seeds written");
        return;
    }
    let id = args[2].clone();
    let tier = Tier::parse(&arg_value(&args, "--tier").unwrap_or_else(|| std::env::var("VERIF_TIER").unwrap_or_default()));
    match cmd {
        "run" => for_props!(&id, P => run_parent::<P>(tier)),
        "replay" => {
            let path = PathBuf::from(args.get(3).expect("replay file"));
            for_props!(&id, P => run_replay::<P>(&path))
        }
        "worker" => {
            let seed: u64 = arg_value(&args, "--seed").and_then(|s| s.parse().ok()).unwrap_or(1);
            let index: usize = arg_value(&args, "--index").and_then(|s| s.parse().ok()).unwrap_or(0);
            let workers: usize = arg_value(&args, "--workers").and_then(|s| s.parse().ok()).unwrap_or(1);
            let out = PathBuf::from(arg_value(&args, "--out").expect("--out"));
            for_props!(&id, P => run_worker::<P>(tier, seed, index, workers, &out))
        }
        _ => {
            eprintln!("unknown command {cmd}");
            std::process::exit(2);
        }
    }
}
