//! One reconciliation session between two store actors through the crate's real initiator (`run_alice`) and acceptor
//! (`BobState`) over in-memory duplex streams, with a forwarding proxy that can cut the stream after a given number of
//! frames and that switches the hooked clock to the receiving side's own value before every frame it forwards (the
//! protocol is lock-step, so exactly one side is processing at any time).

use std::time::Duration;

use iroh_docs::{
    actor::SyncHandle,
    net::AcceptOutcome,
    verif::{
        self,
        net::{run_alice, BobState},
    },
    NamespaceId, SyncOutcome,
};
use tokio::io::{AsyncRead, AsyncReadExt, AsyncWriteExt};

use crate::common::R;

pub const WATCHDOG: Duration = Duration::from_secs(20);

#[derive(Debug, Clone)]
pub struct NetSession {
    pub alice: Result<SyncOutcome, String>,
    pub bob: Result<(), String>,
    pub bob_out: SyncOutcome,
    /// frames forwarded by the proxy
    pub frames: usize,
    /// the proxy stopped forwarding because the limit was reached while a side still had something to say
    pub cut: bool,
}

async fn read_raw<RD: AsyncRead + Unpin>(r: &mut RD) -> Option<Vec<u8>> {
    let mut len = [0u8; 4];
    if r.read_exact(&mut len).await.is_err() {
        return None;
    }
    let n = u32::from_be_bytes(len) as usize;
    let mut body = vec![0u8; n];
    if r.read_exact(&mut body).await.is_err() {
        return None;
    }
    let mut v = len.to_vec();
    v.extend_from_slice(&body);
    Some(v)
}

/// `limit = None`: run to completion. `clocks = (initiator_now, acceptor_now)`.
/// `Err("WATCHDOG")` if the two sides and the proxy do not finish within the watchdog.
pub async fn net_session(ha: &SyncHandle, hb: &SyncHandle, ns: NamespaceId, limit: Option<usize>, clocks: Option<(u64, u64)>) -> R<NetSession> {
    let pk_a = iroh::SecretKey::from_bytes(&[0xA1u8; 32]).public();
    let pk_b = iroh::SecretKey::from_bytes(&[0xB2u8; 32]).public();
    let (a_io, pa_io) = tokio::io::duplex(1 << 20);
    let (b_io, pb_io) = tokio::io::duplex(1 << 20);
    let (mut ar, mut aw) = tokio::io::split(a_io);
    let (br, bw) = tokio::io::split(b_io);
    let (mut par, mut paw) = tokio::io::split(pa_io);
    let (mut pbr, mut pbw) = tokio::io::split(pb_io);
    if let Some((ca, _)) = clocks {
        verif::set_clock(Some(ca));
    }
    let ha2 = ha.clone();
    let hb2 = hb.clone();
    let alice = async move { run_alice(&mut aw, &mut ar, &ha2, ns, pk_b).await.map_err(|e| format!("{e:?}")) };
    let bob = async move {
        let mut st = BobState::new(pk_a);
        let res = st.run(bw, br, hb2, |_n, _p| std::future::ready(AcceptOutcome::Allow)).await;
        let out = st.into_outcome();
        (res.map(|_| ()).map_err(|e| format!("{e:?}")), out)
    };
    let proxy = async {
        let mut count = 0usize;
        let mut from_a = true;
        let mut cut = false;
        loop {
            let raw = if from_a { read_raw(&mut par).await } else { read_raw(&mut pbr).await };
            let Some(raw) = raw else { break };
            if let Some(l) = limit {
                if count >= l {
                    cut = true;
                    break;
                }
            }
            count += 1;
            if let Some((ca, cb)) = clocks {
                verif::set_clock(Some(if from_a { cb } else { ca }));
            }
            let ok = if from_a { pbw.write_all(&raw).await.is_ok() } else { paw.write_all(&raw).await.is_ok() };
            if !ok {
                break;
            }
            from_a = !from_a;
        }
        let _ = paw.shutdown().await;
        let _ = pbw.shutdown().await;
        drop(paw);
        drop(pbw);
        let mut sink1 = [0u8; 1024];
        let mut sink2 = [0u8; 1024];
        let (mut a_open, mut b_open) = (true, true);
        while a_open || b_open {
            tokio::select! {
                r = par.read(&mut sink1), if a_open => { if !matches!(r, Ok(n) if n > 0) { a_open = false; } }
                r = pbr.read(&mut sink2), if b_open => { if !matches!(r, Ok(n) if n > 0) { b_open = false; } }
            }
        }
        (count, cut)
    };
    let joined = tokio::time::timeout(WATCHDOG, async { tokio::join!(alice, bob, proxy) }).await;
    let (ra, (rb, bob_out), (frames, cut)) = match joined {
        Err(_) => return Err("WATCHDOG".to_string()),
        Ok(x) => x,
    };
    Ok(NetSession { alice: ra, bob: rb, bob_out, frames, cut })
}
