pub mod c02;
