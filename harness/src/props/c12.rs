//! C12 Subscribers see exactly one event per entry that actually entered the replica.

use iroh_docs::{
    actor::{OpenOpts, SyncHandle},
    store::Store,
    verif, ContentStatus, Event, NamespaceId, RecordIdentifier, SignedEntry, SyncOutcome,
};
use proptest::{collection::vec, prelude::*};
use serde::{Deserialize, Serialize};

use super::c15::{oracle as policy_oracle, to_policy, FSpec, PSpec};
use crate::{
    act,
    common::*,
    engine::{Ctx, Outcome, Prop, Tier},
    wire::{Fields, MMessage, MPart, MRange, MRangeItem},
};

pub struct C12;

#[derive(Serialize, Deserialize, Clone, Debug)]
pub struct Small {
    pub a: u8,
    pub k: u8,
    pub t: u8,
    pub c: u8,
    /// 0 = valid; 1 = bad author signature; 2 = foreign namespace; 3 = too far in the future; 4 = malformed emptiness
    pub bad: u8,
    pub status: u8,
}

#[derive(Serialize, Deserialize, Clone, Debug)]
pub enum Step {
    Subscribe(u8),
    Unsubscribe(u8),
    DropReceiver(u8),
    LocalInsert { a: u8, k: u8, c: u8 },
    LocalDelete { a: u8, k: u8 },
    Remote(Small),
    /// crafted message: values, have_local
    Message(Vec<Small>, bool),
    /// a real session with a peer replica holding these entries; after the first reply a local write happens
    Session(Vec<Small>, Option<(u8, u8)>),
    SetPolicy(bool, Vec<(bool, u8)>),
    /// another document of the same store actor (open, syncing, with its own subscriber) receives an entry, a policy, or
    /// is closed and opened again: nothing of that may reach this document's subscribers
    OtherDoc(u8, u8, u8, u8),
    /// import the write (true) or the read (false) capability of this document while it is open
    ImportCapability(bool),
    /// a slow subscriber (channel of capacity 1, not reading) and a caller that gives up: the first local insert fills the
    /// slow channel, the second one blocks the actor on it and its caller drops the request after 10 ms; then the slow
    /// subscriber reads. Both entries were applied, so every subscriber - the slow one included - sees both events
    CancelledInsert { a: u8, k: u8, c: u8 },
    /// a crafted reconciliation message (values, have_local) arriving while a slow subscriber (channel of capacity 1, reading
    /// one event every few milliseconds) is attached: the actor has to wait for it between the entries of the message.
    /// Every subscriber - slow or not - sees exactly one event per applied entry, in order
    SlowMessage(Vec<Small>, bool),
}

#[derive(Serialize, Deserialize, Clone, Debug)]
pub struct Case {
    pub steps: Vec<Step>,
    /// the document is first imported read-only (local writes are refused, remote entries are accepted) until an
    /// `ImportCapability(true)` step upgrades it - while it is open and has subscribers
    #[serde(default)]
    pub start_readonly: bool,
    /// a live swarm (real nodes on the loopback network driven through the client API, see livenet.rs): here only what the
    /// client subscribers saw is judged; everything else in the case is ignored when this is set
    #[serde(default)]
    pub live: Option<crate::livenet::LiveCase>,
    /// a crowd of additional subscribers present from the start (beyond the three that the steps move in and out); every
    /// one of them must see exactly what the others see
    #[serde(default)]
    pub crowd: u16,
    /// one more subscriber whose channel is subscribed to this document *and* to the other document of the same actor (one
    /// channel for several documents is what the live engine does): whatever happens to the other document - it is closed
    /// and opened again by some steps - this subscriber must keep seeing this document's events
    #[serde(default)]
    pub shared_channel: bool,
}

fn key(k: u8) -> Vec<u8> {
    match k % 7 {
        0 => vec![],
        1 => b"a".to_vec(),
        2 => b"ab".to_vec(),
        3 => b"b".to_vec(),
        4 => vec![b'a', 0xFF],
        5 => b"abc".to_vec(),
        _ => b"c".to_vec(),
    }
}

fn small() -> impl Strategy<Value = Small> {
    (0u8..3, 0u8..7, 0u8..8, 0u8..4, prop_oneof![5 => Just(0u8), 2 => 1u8..5], 0u8..3).prop_map(|(a, k, t, c, bad, status)| Small { a, k, t, c, bad, status })
}

const NOW: u64 = T0 + 3;

fn status_of(i: u8) -> ContentStatus {
    match i % 3 {
        0 => ContentStatus::Complete,
        1 => ContentStatus::Incomplete,
        _ => ContentStatus::Missing,
    }
}

/// Build the entry and tell whether it is valid.
fn build(s: &Small, now: u64) -> R<(SignedEntry, bool)> {
    let e = sign(namespace(0), &ESpec { a: s.a, k: key(s.k), t: T0 + s.t as u64, c: s.c });
    let mut f = Fields::of(&e);
    match s.bad {
        0 => return Ok((e, true)),
        1 => f.author_sig[5] ^= 0x10,
        2 => {
            f.namespace = namespace(1).id().to_bytes();
            f.resign(namespace(1), author(s.a));
        }
        3 => {
            f.ts = now + FUTURE_SHIFT + 1 + s.t as u64;
            f.resign(namespace(0), author(s.a));
        }
        _ => {
            if f.len == 0 {
                f.len = 3;
            } else {
                f.len = 0;
            }
            f.resign(namespace(0), author(s.a));
        }
    }
    let valid = f.valid(namespace(0).id().as_bytes(), now);
    Ok((f.build()?, valid))
}

impl Prop for C12 {
    type Case = Case;
    const ID: &'static str = "C12";

    fn rule() -> String {
        "histories of <= 30 (thorough 80) steps through the store actor on one syncing document: local insert / delete, remote insert \
         (valid, superseded, invalid), crafted reconciliation messages, real sessions with a peer replica during which a local write \
         obsoletes entries still in flight, subscribe / unsubscribe / receiver drop of up to 3 subscribers, download policy changes, \
         all three content-status values; after every acknowledged request every channel is drained and compared, as an exact \
         sequence (entry bytes, local/remote, from, status, should_download), with the model applied to the step's valid entries in \
         processing order; independent of the model: an error reply means no event, every event's entry was offered in that step, all \
         subscribers saw the same sequence, unsubscribed / dropped channels see nothing more. 1 % of the cases are live swarms (real \
         nodes on the loopback network, client API): every acknowledged local write appears once, in order, as a local insert \
         event of the writing node's client subscriber; every foreign entry a node holds at quiescence appeared exactly once as a \
         remote insert naming one of the other nodes; no remote insert event for an entry nobody wrote, for the node's own entry, \
         or twice. non-trivial = >= 1 rejected or \
         superseded offer, >= 1 message with >= 2 entries and >= 2 subscribers of which one leaves mid-history; distinct by serialised case"
            .into()
    }

    fn cases(tier: Tier) -> u64 {
        tier.pick(24_000, 240_000)
    }

    fn strategy(tier: Tier) -> BoxedStrategy<Case> {
        let max = tier.pick(30, 80);
        let step = prop_oneof![
            4 => (0u8..3).prop_map(Step::Subscribe),
            2 => (0u8..3).prop_map(Step::Unsubscribe),
            1 => (0u8..3).prop_map(Step::DropReceiver),
            4 => (0u8..3, 0u8..7, 1u8..4).prop_map(|(a, k, c)| Step::LocalInsert { a, k, c }),
            2 => (0u8..3, 0u8..7).prop_map(|(a, k)| Step::LocalDelete { a, k }),
            5 => small().prop_map(Step::Remote),
            4 => (vec(small(), 0..=5), any::<bool>()).prop_map(|(v, h)| Step::Message(v, h)),
            2 => (vec(small(), 0..=6), prop::option::of((0u8..3, 0u8..7))).prop_map(|(v, w)| Step::Session(v, w)),
            1 => (any::<bool>(), vec((any::<bool>(), 0u8..7), 0..=3)).prop_map(|(n, f)| Step::SetPolicy(n, f)),
            3 => (0u8..4, 0u8..3, 0u8..5, 0u8..4).prop_map(|(what, a, k, c)| Step::OtherDoc(what, a, k, c)),
            2 => any::<bool>().prop_map(Step::ImportCapability),
            1 => (0u8..3, 0u8..7, 1u8..4).prop_map(|(a, k, c)| Step::CancelledInsert { a, k, c }),
            1 => (vec(small(), 2..=5), any::<bool>()).prop_map(|(v, h)| Step::SlowMessage(v, h)),
        ];
        let crowd = prop_oneof![300 => Just(0u16), 1 => prop::sample::select(vec![31u16, 32, 33, 63, 64, 65, 127, 128, 129, 255, 256, 257])];
        let plain = (vec(step, 1..=max), prop::bool::weighted(0.3), crowd, prop::bool::weighted(0.25)).prop_map(|(steps, start_readonly, crowd, shared_channel)| Case { steps, start_readonly, live: None, crowd, shared_channel });
        let live = crate::props::c04::live_case().prop_map(|l| Case { steps: vec![], start_readonly: false, live: Some(l), crowd: 0, shared_channel: false });
        if std::env::var("DV_LIVE_ONLY").is_ok() {
            return live.boxed();
        }
        prop_oneof![99 => plain, 1 => live].boxed()
    }

    fn check(ctx: &mut Ctx, c: &Case) -> Outcome {
        let mut o = Outcome::default();
        if let Some(l) = &c.live {
            o.class("live-swarm(client-events)");
            let r = crate::livenet::run_live(ctx, l, &mut o, "C12");
            // anything but the subscribers' view is C04's business (the same family runs there with every oracle)
            let about_events = o.failure.as_ref().map(|f| f.sig.contains("event")).unwrap_or(false);
            if r.is_err() || (o.failed() && !about_events) {
                o = Outcome::default();
                o.class("live-swarm(client-events)");
                o.class("live/not-judged-here");
            }
            return o;
        }
        verif::set_clock(Some(NOW));
        let r = run(ctx, c, &mut o);
        verif::set_clock(None);
        if let Err(e) = r {
            if e.starts_with("harness-timeout") {
                o.failure = None;
                o.fail("C12/harness-timeout", e);
            } else {
                o.fail("C12/harness-error", e);
            }
        }
        o
    }

    fn assumptions() -> Vec<String> {
        vec![
            "subscriber channels are large enough never to block the actor (capacity 4096)".into(),
            "if the observed post-state differs from the model's prediction the step is attributed to C02 (counted as class 'state-mismatch(C02)') and only the model-independent clauses are judged".into(),
        ]
    }
}

#[derive(Clone, Debug, PartialEq)]
struct Ev {
    local: bool,
    entry: SignedEntry,
    from: [u8; 32],
    status: Option<ContentStatus>,
    download: bool,
}

fn to_ev(e: &Event, ns: NamespaceId) -> R<Ev> {
    Ok(match e {
        Event::LocalInsert { namespace, entry } => {
            if *namespace != ns {
                return Err("event for another namespace".into());
            }
            Ev { local: true, entry: entry.clone(), from: [0; 32], status: None, download: false }
        }
        Event::RemoteInsert { namespace, entry, from, should_download, remote_content_status } => {
            if *namespace != ns {
                return Err("event for another namespace".into());
            }
            Ev { local: false, entry: entry.clone(), from: *from, status: Some(*remote_content_status), download: *should_download }
        }
    })
}

fn describe_evs(v: &[Ev]) -> String {
    let s: Vec<String> = v
        .iter()
        .map(|e| format!("{}{}{}", if e.local { "L" } else { "R" }, describe(&e.entry), if e.local { String::new() } else { format!("<{:02x},{:?},dl={}>", e.from[0], e.status.unwrap(), e.download) }))
        .collect();
    format!("[{}]", s.join(" "))
}

enum Slot {
    Empty,
    Active(async_channel::Sender<Event>, async_channel::Receiver<Event>),
    /// unsubscribed: we keep the receiver to prove that nothing more arrives
    Left(async_channel::Receiver<Event>),
}

fn run(ctx: &mut Ctx, c: &Case, o: &mut Outcome) -> R<()> {
    let nssec = namespace(0).clone();
    let ns = nssec.id();
    let h: SyncHandle = act::spawn(Store::memory());
    let res: R<()> = ctx.rt.block_on(async {
        let mut writable = !c.start_readonly;
        if c.start_readonly {
            es(h.import_namespace(iroh_docs::Capability::Read(ns)).await)?;
            o.class("starts-read-only");
        } else {
            es(h.import_namespace(nssec.clone().into()).await)?;
        }
        for a in 0..3 {
            es(h.import_author(author(a).clone()).await)?;
        }
        es(h.open(ns, OpenOpts::default().sync()).await)?;
        // a second document in the same actor, with a subscriber of its own
        let other = noise_namespace().id();
        es(h.import_namespace(noise_namespace().clone().into()).await)?;
        let (otx, orx) = async_channel::bounded::<Event>(4096);
        es(h.open(other, OpenOpts::default().sync().subscribe(otx.clone())).await)?;
        let mut slots: Vec<Slot> = vec![Slot::Empty, Slot::Empty, Slot::Empty];
        for _ in 0..c.crowd {
            let (tx, rx) = async_channel::bounded(4096);
            es(h.subscribe(ns, tx.clone()).await)?;
            slots.push(Slot::Active(tx, rx));
        }
        if c.crowd > 0 {
            o.class("crowd-of-subscribers(31..257)");
        }
        let mut shared_slot = None;
        if c.shared_channel {
            let (tx, rx) = async_channel::bounded(4096);
            es(h.subscribe(ns, tx.clone()).await)?;
            es(h.subscribe(other, tx.clone()).await)?;
            shared_slot = Some(slots.len());
            slots.push(Slot::Active(tx, rx));
            o.class("a-subscriber-whose-channel-also-serves-the-other-document");
        }
        let mut model = Model::default();
        let mut policy = PSpec { nothing_except: false, filters: vec![] };
        let mut rejected_offer = false;
        let mut big_message = false;
        let mut max_active = 0usize;
        let mut someone_left_with_others = false;
        let mut clock = NOW;
        for (i, s) in c.steps.iter().enumerate() {
            let what = format!("step {i} {:?}", s);
            // offered: everything that was offered in this step (for the model-independent clause)
            let mut offered: Vec<SignedEntry> = vec![];
            let mut expected: Vec<Ev> = vec![];
            let mut reply_err = false;
            let mut single_ok_insert = false;
            match s {
                Step::Subscribe(n) => {
                    let n = *n as usize;
                    if matches!(slots[n], Slot::Empty) {
                        let (tx, rx) = async_channel::bounded(4096);
                        es(h.subscribe(ns, tx.clone()).await)?;
                        slots[n] = Slot::Active(tx, rx);
                    }
                }
                Step::Unsubscribe(n) => {
                    let n = *n as usize;
                    if let Slot::Active(tx, rx) = std::mem::replace(&mut slots[n], Slot::Empty) {
                        es(h.unsubscribe(ns, tx.clone()).await)?;
                        drop(tx);
                        slots[n] = Slot::Left(rx);
                        if slots.iter().any(|s| matches!(s, Slot::Active(..))) {
                            someone_left_with_others = true;
                        }
                        o.class("unsubscribe");
                    }
                }
                Step::DropReceiver(n) => {
                    let n = *n as usize;
                    if let Slot::Active(tx, rx) = std::mem::replace(&mut slots[n], Slot::Empty) {
                        drop(rx);
                        drop(tx);
                        if slots.iter().any(|s| matches!(s, Slot::Active(..))) {
                            someone_left_with_others = true;
                        }
                        o.class("receiver-dropped");
                    }
                }
                Step::LocalInsert { a, k, c } => {
                    clock += 1;
                    verif::set_clock(Some(clock));
                    let e = sign(&nssec, &ESpec { a: *a, k: key(*k), t: clock, c: *c });
                    offered.push(e.clone());
                    let r = h.insert_local(ns, author(*a).id(), key(*k).into(), e.content_hash(), e.content_len()).await;
                    reply_err = r.is_err();
                    single_ok_insert = r.is_ok();
                    if !writable {
                        // read-only: the write is refused (C07's clause); here it only matters that nothing is announced
                        rejected_offer = true;
                        if r.is_ok() {
                            o.class("skipped/local-write-on-read-only-succeeded(C07)");
                            model.apply(&e);
                        }
                    } else if model.apply(&e).is_some() {
                        expected.push(Ev { local: true, entry: e, from: [0; 32], status: None, download: false });
                    } else {
                        rejected_offer = true;
                    }
                }
                Step::LocalDelete { a, k } => {
                    clock += 1;
                    verif::set_clock(Some(clock));
                    let e = sign(&nssec, &ESpec { a: *a, k: key(*k), t: clock, c: 0 });
                    offered.push(e.clone());
                    let r = h.delete_prefix(ns, author(*a).id(), key(*k).into()).await;
                    reply_err = r.is_err();
                    single_ok_insert = r.is_ok();
                    if !writable {
                        rejected_offer = true;
                        if r.is_ok() {
                            o.class("skipped/local-write-on-read-only-succeeded(C07)");
                            model.apply(&e);
                        }
                    } else if model.apply(&e).is_some() {
                        expected.push(Ev { local: true, entry: e, from: [0; 32], status: None, download: false });
                    } else {
                        rejected_offer = true;
                    }
                }
                Step::Remote(sm) => {
                    let (e, valid) = build(sm, NOW.max(clock))?;
                    offered.push(e.clone());
                    let from = [0x11u8; 32];
                    let r = h.insert_remote(ns, e.clone(), from, status_of(sm.status)).await;
                    reply_err = r.is_err();
                    single_ok_insert = r.is_ok();
                    if valid && model.apply(&e).is_some() {
                        let dl = policy_oracle(&policy, e.key());
                        expected.push(Ev { local: false, entry: e, from, status: Some(status_of(sm.status)), download: dl });
                    } else {
                        rejected_offer = true;
                        o.class(if valid { "offer/superseded" } else { "offer/invalid" });
                    }
                }
                Step::Message(vals, have_local) => {
                    let from = [0x22u8; 32];
                    let lo = RecordIdentifier::new(ns, author(0).id(), b"");
                    let mut values = vec![];
                    for sm in vals {
                        let (e, valid) = build(sm, NOW.max(clock))?;
                        offered.push(e.clone());
                        values.push((e.clone(), status_of(sm.status)));
                        if valid && model.apply(&e).is_some() {
                            let dl = policy_oracle(&policy, e.key());
                            expected.push(Ev { local: false, entry: e, from, status: Some(status_of(sm.status)), download: dl });
                        } else {
                            rejected_offer = true;
                        }
                    }
                    if values.len() >= 2 {
                        big_message = true;
                        o.class("message>=2-entries");
                    }
                    let msg = MMessage { parts: vec![MPart::RangeItem(MRangeItem { range: MRange { x: lo.clone(), y: lo }, values, have_local: *have_local })] }.to_real();
                    let r = h.sync_process_message(ns, msg, from, SyncOutcome::default()).await;
                    reply_err = r.is_err();
                }
                Step::Session(vals, local_write) => {
                    // a peer replica with its own (valid) entries runs a real session against the actor
                    let from = [0x33u8; 32];
                    let mut peer = Store::memory();
                    es(peer.import_namespace(nssec.clone().into()))?;
                    {
                        let mut r = es(peer.open_replica(&ns))?;
                        for sm in vals {
                            let (e, valid) = build(sm, NOW.max(clock))?;
                            if valid {
                                let _ = r.insert_remote_entry(e, [9u8; 32], status_of(sm.status)).await;
                            }
                        }
                    }
                    peer.close_replica(ns);
                    let mut r = es(peer.open_replica(&ns))?;
                    let mut next = Some(es(r.sync_initial_message())?);
                    let mut peer_state = SyncOutcome::default();
                    let mut mine = SyncOutcome::default();
                    let mut round = 0;
                    while let Some(m) = next.take() {
                        round += 1;
                        if round > 64 {
                            return Err("session does not terminate (C01 territory)".into());
                        }
                        let mm = MMessage::from_real(&m);
                        let vals_in = mm.values().len();
                        for (e, st) in mm.parts.iter().filter_map(|p| if let MPart::RangeItem(it) = p { Some(it.values.iter()) } else { None }).flatten() {
                            offered.push(e.clone());
                            if model.apply(e).is_some() {
                                let dl = policy_oracle(&policy, e.key());
                                expected.push(Ev { local: false, entry: e.clone(), from, status: Some(*st), download: dl });
                            } else {
                                rejected_offer = true;
                                o.class("session/entry-obsoleted-in-flight");
                            }
                        }
                        if vals_in >= 2 {
                            big_message = true;
                        }
                        let (reply, st) = match h.sync_process_message(ns, m, from, std::mem::take(&mut mine)).await {
                            Ok(x) => x,
                            Err(e) => return Err(format!("session: actor failed: {e:?}")),
                        };
                        mine = st;
                        // a local write between two messages of the session
                        if round == 1 {
                            if let Some((a, k)) = local_write {
                                clock += 1;
                                verif::set_clock(Some(clock));
                                let e = sign(&nssec, &ESpec { a: *a, k: key(*k), t: clock, c: 0 });
                                offered.push(e.clone());
                                let _ = h.delete_prefix(ns, author(*a).id(), key(*k).into()).await;
                                if writable && model.apply(&e).is_some() {
                                    expected.push(Ev { local: true, entry: e, from: [0; 32], status: None, download: false });
                                }
                                o.class("session/local-write-between-messages");
                            }
                        }
                        let Some(reply) = reply else { break };
                        next = es(r.sync_process_message(reply, [0x44u8; 32], &mut peer_state).await)?;
                    }
                    o.class("real-session");
                }
                Step::OtherDoc(what_, a, k, cc) => {
                    match what_ % 4 {
                        0 | 1 => {
                            let _ = h.insert_remote(other, noise_entry(*a, *k, *cc), [0x4E; 32], ContentStatus::Complete).await;
                        }
                        2 => {
                            let _ = h.set_download_policy(other, to_policy(&PSpec { nothing_except: true, filters: vec![FSpec { exact: false, bytes: key(*k) }] })).await;
                        }
                        _ => {
                            let _ = h.close(other).await;
                            es(h.open(other, OpenOpts::default().sync().subscribe(otx.clone())).await)?;
                        }
                    }
                    let _ = act::drain(&orx);
                    o.class("other-document-activity");
                }
                Step::CancelledInsert { a, k, c: cc } => {
                    if !writable {
                        continue;
                    }
                    let (stx, srx) = async_channel::bounded::<Event>(1);
                    es(h.subscribe(ns, stx.clone()).await)?;
                    let mut slow_expected: Vec<SignedEntry> = vec![];
                    // 1: fills the slow channel
                    clock += 1;
                    verif::set_clock(Some(clock));
                    let e1 = sign(&nssec, &ESpec { a: *a, k: key(*k), t: clock, c: *cc });
                    offered.push(e1.clone());
                    let _ = h.insert_local(ns, author(*a).id(), key(*k).into(), e1.content_hash(), e1.content_len()).await;
                    if model.apply(&e1).is_some() {
                        expected.push(Ev { local: true, entry: e1.clone(), from: [0; 32], status: None, download: false });
                        slow_expected.push(e1);
                    }
                    // 2: the actor blocks on the slow subscriber, the caller gives up
                    clock += 1;
                    verif::set_clock(Some(clock));
                    let c2 = 1 + (*cc % 3);
                    let e2 = sign(&nssec, &ESpec { a: *a, k: key(*k), t: clock, c: c2 });
                    offered.push(e2.clone());
                    let gave_up = tokio::time::timeout(std::time::Duration::from_millis(10), h.insert_local(ns, author(*a).id(), key(*k).into(), e2.content_hash(), e2.content_len())).await.is_err();
                    if model.apply(&e2).is_some() {
                        expected.push(Ev { local: true, entry: e2.clone(), from: [0; 32], status: None, download: false });
                        slow_expected.push(e2);
                    }
                    if gave_up {
                        o.class("caller-gave-up-while-the-actor-waited-for-a-slow-subscriber");
                    }
                    // the slow subscriber starts reading; then one round trip makes sure the actor is done
                    let mut slow_seen: Vec<SignedEntry> = vec![];
                    for _ in 0..slow_expected.len() {
                        match tokio::time::timeout(std::time::Duration::from_secs(5), srx.recv()).await {
                            Ok(Ok(Event::LocalInsert { entry, .. })) => slow_seen.push(entry),
                            Ok(Ok(_)) => {}
                            _ => break,
                        }
                    }
                    match tokio::time::timeout(std::time::Duration::from_secs(20), h.get_state(ns)).await {
                        Ok(r) => {
                            let _ = es(r)?;
                        }
                        Err(_) => return Err("harness-timeout: the store actor did not answer within 20 s after the slow subscriber caught up".into()),
                    }
                    while let Ok(Event::LocalInsert { entry, .. }) = srx.try_recv() {
                        slow_seen.push(entry);
                    }
                    if slow_seen != slow_expected {
                        o.fail(
                            "C12/slow-subscriber-after-cancelled-request",
                            format!("{what}: the slow subscriber saw {} but {} were applied (the second insert's caller gave up: {gave_up})", describe_all(&slow_seen), describe_all(&slow_expected)),
                        );
                        break;
                    }
                    let _ = h.unsubscribe(ns, stx).await;
                }
                Step::SlowMessage(vals, have_local) => {
                    let from = [0x55u8; 32];
                    let lo = RecordIdentifier::new(ns, author(0).id(), b"");
                    let mut values = vec![];
                    for sm in vals {
                        let (e, valid) = build(sm, NOW.max(clock))?;
                        offered.push(e.clone());
                        values.push((e.clone(), status_of(sm.status)));
                        if valid && model.apply(&e).is_some() {
                            let dl = policy_oracle(&policy, e.key());
                            expected.push(Ev { local: false, entry: e, from, status: Some(status_of(sm.status)), download: dl });
                        } else {
                            rejected_offer = true;
                        }
                    }
                    big_message = true;
                    let msg = MMessage { parts: vec![MPart::RangeItem(MRangeItem { range: MRange { x: lo.clone(), y: lo }, values, have_local: *have_local })] }.to_real();
                    let (stx, srx) = async_channel::bounded::<Event>(1);
                    es(h.subscribe(ns, stx.clone()).await)?;
                    let mut slow_seen: Vec<Ev> = vec![];
                    let req = tokio::time::timeout(std::time::Duration::from_secs(20), h.sync_process_message(ns, msg, from, SyncOutcome::default()));
                    tokio::pin!(req);
                    let r = loop {
                        tokio::select! {
                            biased;
                            r = &mut req => break r,
                            _ = tokio::time::sleep(std::time::Duration::from_millis(3)) => {
                                if let Ok(ev) = srx.try_recv() {
                                    slow_seen.push(to_ev(&ev, ns)?);
                                }
                            }
                        }
                    };
                    let Ok(r) = r else { return Err("harness-timeout: the store actor did not finish a message within 20 s although the slow subscriber kept reading".into()) };
                    reply_err = r.is_err();
                    while let Ok(ev) = srx.try_recv() {
                        slow_seen.push(to_ev(&ev, ns)?);
                    }
                    let _ = h.unsubscribe(ns, stx).await;
                    if expected.len() >= 2 {
                        o.class("slow-subscriber-during-a-message-with>=2-applied-entries");
                    }
                    let after_now = act::dump(&h, ns).await?;
                    if after_now == model.dump() && slow_seen != expected {
                        o.fail("C12/slow-subscriber-during-message", format!("{what}: the slow subscriber saw {} expected {}", describe_evs(&slow_seen), describe_evs(&expected)));
                        break;
                    }
                }
                Step::ImportCapability(write) => {
                    let cap = if *write { iroh_docs::Capability::Write(nssec.clone()) } else { iroh_docs::Capability::Read(ns) };
                    es(h.import_namespace(cap).await)?;
                    if *write && !writable {
                        o.class("upgraded-to-write-while-open");
                        if slots.iter().any(|s| matches!(s, Slot::Active(..))) {
                            o.class("upgraded-to-write-while-open-with-subscribers");
                        }
                    }
                    writable = writable || *write;
                }
                Step::SetPolicy(nothing_except, filters) => {
                    let p = PSpec { nothing_except: *nothing_except, filters: filters.iter().map(|(exact, k)| FSpec { exact: *exact, bytes: key(*k) }).collect() };
                    es(h.set_download_policy(ns, to_policy(&p)).await)?;
                    policy = p;
                    o.class("policy-change");
                }
            }
            verif::set_clock(Some(NOW.max(clock)));
            // observe
            let after = act::dump(&h, ns).await?;
            let state_matches = after == model.dump();
            if !state_matches {
                o.class("state-mismatch(C02)");
                model = Model::merge(after.iter());
            }
            let active = slots.iter().filter(|s| matches!(s, Slot::Active(..))).count();
            max_active = max_active.max(active);
            let mut seen: Vec<(usize, Vec<Ev>)> = vec![];
            for (n, sl) in slots.iter().enumerate() {
                match sl {
                    Slot::Empty => {}
                    Slot::Active(_, rx) => {
                        let mut raw = act::drain(rx);
                        if Some(n) == shared_slot {
                            // the shared channel also carries the other document's events
                            raw.retain(|e| match e {
                                Event::LocalInsert { namespace, .. } | Event::RemoteInsert { namespace, .. } => *namespace == ns,
                            });
                        }
                        let evs: Vec<Ev> = raw.iter().map(|e| to_ev(e, ns)).collect::<R<_>>()?;
                        seen.push((n, evs));
                    }
                    Slot::Left(rx) => {
                        let evs = act::drain(rx);
                        if !evs.is_empty() {
                            o.fail("C12/event-after-unsubscribe", format!("{what}: an unsubscribed channel received {} events", evs.len()));
                        }
                    }
                }
            }
            if o.failed() {
                break;
            }
            o.count("steps_with_channels_drained", 1);
            o.count("events_compared", seen.iter().map(|(_, e)| e.len() as u64).sum());
            for (n, evs) in &seen {
                // model-independent clauses
                if reply_err && !evs.is_empty() {
                    o.fail("C12/event-on-error", format!("{what}: the request failed but subscriber {n} saw {}", describe_evs(evs)));
                    break;
                }
                if let Some(bad) = evs.iter().find(|e| !offered.contains(&e.entry)) {
                    o.fail("C12/event-for-unoffered-entry", format!("{what}: subscriber {n} saw an event for {} which was not offered in this step", describe(&bad.entry)));
                    break;
                }
                if single_ok_insert && evs.len() != 1 {
                    o.fail("C12/single-insert-one-event", format!("{what}: one acknowledged insert produced {} events on subscriber {n}", evs.len()));
                    break;
                }
                if evs != &seen[0].1 {
                    o.fail("C12/subscribers-disagree", format!("{what}: subscriber {n} saw {} but subscriber {} saw {}", describe_evs(evs), seen[0].0, describe_evs(&seen[0].1)));
                    break;
                }
                if state_matches && *evs != expected {
                    o.fail(
                        "C12/event-sequence",
                        format!("{what}: subscriber {n} saw {} expected {}", describe_evs(evs), describe_evs(&expected)),
                    );
                    break;
                }
            }
            if o.failed() {
                break;
            }
        }
        if rejected_offer && big_message && max_active >= 2 && someone_left_with_others {
            o.nontrivial = true;
        }
        let _ = h.shutdown().await;
        Ok(())
    });
    res
}
