//! C11 At most one sync session per peer and document, and the slot is always freed.

use iroh::PublicKey;
use iroh_docs::{
    actor::SyncHandle,
    engine::{Origin, SyncReason},
    net::{AbortReason, AcceptError, AcceptOutcome, ConnectError, SyncFinished},
    store::Store,
    verif::engine::{LiveActor, VerifPeerSnapshot},
    NamespaceId,
};
use proptest::{collection::vec, prelude::*};
use serde::{Deserialize, Serialize};

use crate::{
    common::*,
    engine::{idx, Ctx, Outcome, Prop, Tier},
};

pub struct C11;

/// One scheduling decision: which of the currently enabled events happens, with a flavour.
#[derive(Serialize, Deserialize, Clone, Debug)]
pub struct Pick {
    pub which: u16,
    pub flavour: u8,
}

#[derive(Serialize, Deserialize, Clone, Debug)]
pub enum Case {
    /// generated schedule: each pick selects one of the currently enabled events
    Random {
        /// which node has the greater id plays "node 0"
        swap: bool,
        picks: Vec<Pick>,
        max_dials: u8,
        /// order in which the remaining in-flight items are drained at the end
        drain: Vec<u16>,
        /// the documents really exist in both stores and are started / left through the real `start_sync` / `leave`;
        /// the schedule may additionally leave and re-join the document and queue / complete content downloads
        #[serde(default)]
        lifecycle: bool,
    },
    /// one explicit schedule: the index of the chosen enabled event at every step (then always 0)
    Exact { swap: bool, max_dials: u8, choices: Vec<u16> },
    /// every schedule that extends `prefix`, enumerated depth-first by re-execution
    Exhaustive { swap: bool, max_dials: u8, prefix: Vec<u16> },
}

pub struct Fixture {
    pub actors: Vec<LiveActor>,
    pub ids: Vec<PublicKey>,
    pub counter: u64,
    pub endpoints: Vec<iroh::Endpoint>,
    pub since_rebuild: u64,
}

/// What a lifecycle run observed about the stores (judged by C10: "a declined request changes nothing in the store").
#[derive(Debug, Default, Clone)]
pub struct StoreNote {
    pub violation: Option<String>,
    pub declined_or_failed_sessions_observed: u64,
}

async fn mk_actor(seed: u8) -> R<(LiveActor, PublicKey, iroh::Endpoint)> {
    use iroh::{endpoint::presets, Endpoint};
    let sk = iroh::SecretKey::from_bytes(&[seed; 32]);
    let ep = es(Endpoint::builder(presets::Minimal).secret_key(sk).bind().await)?;
    let id = ep.id();
    let gossip = iroh_gossip::net::Gossip::builder().spawn(ep.clone());
    let blobs = iroh_blobs::store::mem::MemStore::new();
    let blobs = (*blobs).clone();
    let downloader = blobs.downloader(&ep);
    let sync = SyncHandle::spawn(Store::memory(), None, format!("n{seed}"));
    let (tx, rx) = tokio::sync::mpsc::channel(64);
    let metrics = sync.metrics().clone();
    let actor = es(LiveActor::new(sync, ep.clone(), gossip, blobs, downloader, rx, tx, metrics))?;
    Ok((actor, id, ep))
}

#[derive(Clone, Debug, PartialEq)]
enum Item {
    /// a dial from `from` is on its way
    Request { from: usize, reason: SyncReason, id: u32 },
    /// the acceptor's decision travels back to the connector (`to`)
    Reply { to: usize, reason: SyncReason, allow: Option<u32>, reject: Option<AbortReason> },
    /// the connector's end of an established session
    ConnEnd { at: usize, reason: SyncReason, session: u32 },
    /// the acceptor's task (its end of an allowed session, or the bookkeeping after a reject)
    AcceptEnd { at: usize, session: Option<u32>, rejected: Option<AbortReason> },
}

impl Prop for C11 {
    type Case = Case;
    const ID: &'static str = "C11";

    fn rule() -> String {
        "two real live actors (real endpoints on loopback, gossip, blob store, store actors; ids in both orders) and one syncing \
         document; the harness owns the network: in-flight requests, replies, connector ends and acceptor ends of sessions. At \
         every step proptest picks one enabled event: a dial decision (new neighbour / sync report / direct join; <= 4, thorough \
         6 dial decisions; ALL schedules with <= 2 dial decisions are enumerated exhaustively by re-execution, 73 872 schedules), delivering or losing a request, delivering a reply (allow -> session established, reject -> remote abort) or \
         losing it, ending either end of a session with success or an error; results are fed to the real completion handlers and \
         dials are observed from the real sync_with_peer. Invariants: (I1) never two sessions in progress for the pair, (I2) two \
         simultaneous requests delivered back to back: exactly one allowed, (I3) resync dials only from a completion handler, only \
         after a refused sync report, and every refused report is followed by a later dial or allowed request, (I4) once nothing \
         is in flight both sides are Idle and a probe dial and a probe request are accepted, (I5) a request for a non-syncing \
         document is declined with NotFound. non-trivial = two requests in flight at once, or a dial while the other side still \
         holds Running for an earlier session, or a lost item; distinct by serialised case"
            .into()
    }

    fn cases(tier: Tier) -> u64 {
        tier.pick(300_000, 20_000_000)
    }

    fn enumerate(tier: Tier) -> Vec<Case> {
        // all schedules with <= 2 dial decisions (3 would be > 10^8 schedules by re-execution), split into subtrees by their first two choices
        let max_dials = tier.pick(2, 2);
        let mut v = vec![];
        for swap in [false, true] {
            for a in 0..4u16 {
                for b in 0..6u16 {
                    v.push(Case::Exhaustive { swap, max_dials, prefix: vec![a, b] });
                }
            }
        }
        v
    }

    fn strategy(tier: Tier) -> BoxedStrategy<Case> {
        let max = tier.pick(24, 40);
        (any::<bool>(), vec((any::<u16>(), any::<u8>()).prop_map(|(which, flavour)| Pick { which, flavour }), 1..=max), tier.pick(2u8..=4, 2u8..=6), vec(any::<u16>(), 0..8), prop::bool::weighted(0.05))
            .prop_map(|(swap, picks, max_dials, drain, lifecycle)| Case::Random { swap, picks, max_dials, drain, lifecycle })
            .boxed()
    }

    fn check(ctx: &mut Ctx, c: &Case) -> Outcome {
        let mut o = Outcome::default();
        let r = run(ctx, c, &mut o);
        if let Err(e) = r {
            if e.starts_with("harness-timeout") {
                o.failure = None;
                o.fail("C11/harness-timeout", e);
            } else {
                o.fail("C11/harness-error", e);
            }
        }
        o
    }

    fn assumptions() -> Vec<String> {
        vec![
            "the real connect_and_sync futures spawned by sync_with_peer are aborted and replaced by synthetic results fed to the real completion handlers (hook H5); handlers are atomic, as in the actor loop".into(),
            "'in progress' = from the acceptor's Allow until the first of the session's two ends has been handled".into(),
            "(I2) is judged only when the two deliveries follow the two dials with no other event in between".into(),
        ]
    }
}

/// Cases after which the two actors (endpoints, gossip, stores) are torn down and built again: their background tasks
/// retain a little memory per wake-up, which over millions of schedules added up to gigabytes per worker.
const REBUILD_AFTER: u64 = 40_000;

pub fn fixture(ctx: &mut Ctx) -> R<()> {
    let mut counter = 0;
    if let Some(fx) = ctx.fixtures.get_mut("c11") {
        let f: &mut Fixture = fx.downcast_mut::<Fixture>().ok_or("fixture type")?;
        f.since_rebuild += 1;
        if f.since_rebuild < REBUILD_AFTER {
            return Ok(());
        }
        counter = f.counter;
        let mut old = ctx.fixtures.remove("c11").ok_or("fixture")?;
        let f: &mut Fixture = old.downcast_mut::<Fixture>().ok_or("fixture type")?;
        let eps = std::mem::take(&mut f.endpoints);
        let actors = std::mem::take(&mut f.actors);
        ctx.rt.block_on(async {
            for a in &actors {
                let _ = a.verif_sync_handle().shutdown().await;
            }
            drop(actors);
            for ep in eps {
                ep.close().await;
            }
        });
    }
    let f: R<Fixture> = ctx.rt.block_on(async {
        let (a, ida, epa) = mk_actor(1).await?;
        let (b, idb, epb) = mk_actor(2).await?;
        Ok(Fixture { actors: vec![a, b], ids: vec![ida, idb], counter, endpoints: vec![epa, epb], since_rebuild: 0 })
    });
    ctx.fixtures.insert("c11", Box::new(f?));
    Ok(())
}

fn finished(ns: NamespaceId, peer: PublicKey) -> SyncFinished {
    SyncFinished { namespace: ns, peer, outcome: Default::default(), timings: Default::default() }
}

struct World {
    ns: NamespaceId,
    /// node index -> fixture index
    map: [usize; 2],
    inflight: Vec<Item>,
    next_id: u32,
    dials: u8,
    /// sessions in progress (allowed, neither end handled yet)
    in_progress: Vec<u32>,
    /// per node: step at which a SyncReport dial was refused and not yet followed up
    refused_report: [Option<usize>; 2],
    /// per node: a SyncReport dial was refused since the running slot was taken
    refused_since_running: [bool; 2],
    step: usize,
    lost_something: bool,
    two_requests_at_once: bool,
    dial_while_other_running: bool,
    /// (I2) bookkeeping: ids of two requests dialled back to back, and what happened since
    pair: Option<(u32, u32, Vec<Option<bool>>)>,
    last_event_was_dial_of: Option<u32>,
    /// lifecycle model: is the document being synced at node n; hashes queued for download at node n; leaves so far
    syncing: [bool; 2],
    queued: [Vec<u8>; 2],
    next_hash: u8,
    leaves: u8,
    /// sessions that finished successfully at node n (its store may then list the peer)
    ok_completions: [u32; 2],
    real_accepts: u8,
    neighbor_downs: u8,
    start_again: u8,
}

/// How the next event is chosen.
enum Chooser<'a> {
    Picks { picks: std::slice::Iter<'a, Pick>, drain: &'a [u16], drain_i: usize },
    /// explicit indices, then always the first enabled event; records how many events were enabled at each step
    Exact { choices: &'a [u16], lens: Vec<usize>, step: usize },
}

pub fn run(ctx: &mut Ctx, c: &Case, o: &mut Outcome) -> R<StoreNote> {
    fixture(ctx)?;
    let mut fx = ctx.fixtures.remove("c11").ok_or("fixture")?;
    let res = {
        let f: &mut Fixture = fx.downcast_mut::<Fixture>().ok_or("fixture type")?;
        let rt = &ctx.rt;
        rt.block_on(async {
            match c {
                Case::Random { swap, picks, max_dials, drain, lifecycle } => {
                    let mut ch = Chooser::Picks { picks: picks.iter(), drain, drain_i: 0 };
                    let lifecycle = *lifecycle || std::env::var_os("DV_C11_LIFECYCLE_ALL").is_some();
                    run_inner(f, *swap, *max_dials, &mut ch, lifecycle, o).await
                }
                Case::Exact { swap, max_dials, choices } => {
                    let mut ch = Chooser::Exact { choices, lens: vec![], step: 0 };
                    run_inner(f, *swap, *max_dials, &mut ch, false, o).await
                }
                Case::Exhaustive { swap, max_dials, prefix } => {
                    o.class("exhaustive-subtree");
                    let mut choices: Vec<u16> = prefix.clone();
                    let mut n = 0u64;
                    loop {
                        let mut trial = Outcome::default();
                        let mut ch = Chooser::Exact { choices: &choices, lens: vec![], step: 0 };
                        run_inner(f, *swap, *max_dials, &mut ch, false, &mut trial).await?;
                        let Chooser::Exact { lens, .. } = ch else { unreachable!() };
                        // a prefix choice beyond the enabled set: empty subtree
                        if prefix.iter().enumerate().any(|(i, c)| lens.get(i).map(|l| *c as usize >= *l).unwrap_or(true)) {
                            break;
                        }
                        n += 1;
                        for cl in &trial.classes {
                            o.class(cl);
                        }
                        if trial.nontrivial {
                            o.nontrivial = true;
                        }
                        if let Some(fl) = trial.failure {
                            let mut full = choices.clone();
                            full.resize(lens.len(), 0);
                            o.fail(fl.sig, format!("{} [schedule: Exact {{ swap: {swap}, max_dials: {max_dials}, choices: {:?} }}]", fl.detail, full));
                            break;
                        }
                        // next schedule in depth-first order: bump the deepest choice that has a sibling
                        let mut full = choices.clone();
                        full.resize(lens.len(), 0);
                        let mut next = None;
                        for i in (prefix.len()..full.len()).rev() {
                            if (full[i] as usize) + 1 < lens[i] {
                                next = Some(i);
                                break;
                            }
                        }
                        match next {
                            None => break,
                            Some(i) => {
                                full.truncate(i + 1);
                                full[i] += 1;
                                choices = full;
                            }
                        }
                        if n > 400_000 {
                            // never expected with <= 2 dial decisions (measured: 73 872 schedules in total); do not claim the subtree
                            o.class("exhaustive-subtree-TRUNCATED");
                            break;
                        }
                    }
                    o.count("schedules_enumerated_exhaustively", n);
                    Ok(StoreNote::default())
                }
            }
        })
    };
    ctx.fixtures.insert("c11", fx);
    res
}

/// The real accepting side (`BobState::run`) receives a handshake for `ns` from `peer` and declines it with `reason`; with
/// `deliverable = false` the dialler has gone away before the decline can be written. Returns the error it reports.
async fn real_decline(f: &Fixture, me: usize, peer: iroh::PublicKey, ns: NamespaceId, reason: AbortReason, deliverable: bool) -> R<AcceptError> {
    use tokio::io::AsyncWriteExt;
    use tokio_util::codec::Encoder;
    let h = f.actors[me].verif_sync_handle();
    let init = {
        let mut scratch = Store::memory();
        es(scratch.import_namespace(iroh_docs::Capability::Read(ns)))?;
        let m = es(es(scratch.open_replica(&ns))?.sync_initial_message())?;
        iroh_docs::verif::net::Frame::init(ns, m)
    };
    let (mut peer_io, bob_io) = tokio::io::duplex(1 << 16);
    let (br, bw) = tokio::io::split(bob_io);
    let mut buf = bytes::BytesMut::new();
    es(iroh_docs::verif::net::FrameCodec::default().encode(init, &mut buf))?;
    es(peer_io.write_all(&buf).await)?;
    let keep = if deliverable {
        Some(peer_io)
    } else {
        // what was written stays readable; writes towards the dropped end fail
        drop(peer_io);
        None
    };
    let mut st = iroh_docs::verif::net::BobState::new(peer);
    let res = tokio::time::timeout(std::time::Duration::from_secs(20), st.run(bw, br, h, move |_n, _p| std::future::ready(AcceptOutcome::Reject(reason)))).await;
    drop(keep);
    match res {
        Err(_) => Err("harness-timeout: the real acceptor (one handshake, declined) did not finish within 20 s".into()),
        Ok(Ok(_)) => Err("a declining acceptor reported success".into()),
        Ok(Err(e)) => Ok(e),
    }
}

async fn snapshot(f: &Fixture, w: &World, node: usize) -> VerifPeerSnapshot {
    let me = w.map[node];
    let other = w.map[1 - node];
    f.actors[me].verif_snapshot(&w.ns, &f.ids[other])
}

fn is_running(s: &VerifPeerSnapshot) -> bool {
    matches!(s, VerifPeerSnapshot::Running { .. })
}

/// Feed a follow-up dial (Resync) reported by a completion handler into the world.
fn note_followup(w: &mut World, node: usize, started: bool, o: &mut Outcome, what: &str) {
    if started {
        if !w.refused_since_running[node] {
            o.fail("C11/I3-resync-without-refused-report", format!("step {}: {what} at node {node} started a follow-up dial although no sync report was refused since the slot was taken", w.step));
        }
        w.refused_since_running[node] = false;
        w.refused_report[node] = None;
        let id = w.next_id;
        w.next_id += 1;
        w.inflight.push(Item::Request { from: node, reason: SyncReason::Resync, id });
        o.class("resync-dial");
    }
}

async fn run_inner(f: &mut Fixture, swap: bool, max_dials: u8, chooser: &mut Chooser<'_>, lifecycle: bool, o: &mut Outcome) -> R<StoreNote> {
    f.counter += 1;
    let mut nsb = [0x5Cu8; 32];
    nsb[..8].copy_from_slice(&f.counter.to_le_bytes());
    nsb[8..12].copy_from_slice(&std::process::id().to_le_bytes());
    let ns = NamespaceId::from(&nsb);
    let mut other = nsb;
    other[31] ^= 0xFF;
    let not_syncing = NamespaceId::from(&other);
    let map = if swap { [1, 0] } else { [0, 1] };
    let mut note = StoreNote::default();
    if std::env::var("DV_C11_SKIP").ok().as_deref() == Some("2") {
        return Ok(note);
    }
    if lifecycle {
        o.class("lifecycle(real start_sync / leave, documents exist in the stores)");
        // both documents exist in both stores; `ns` is synced on both nodes, `not_syncing` only on node 1
        for (i, a) in f.actors.iter_mut().enumerate() {
            let sync = a.verif_sync_handle();
            es(sync.import_namespace(iroh_docs::Capability::Read(ns)).await)?;
            es(sync.import_namespace(iroh_docs::Capability::Read(not_syncing)).await)?;
            if a.verif_start_sync(ns).await != Some(false) {
                return Err("start_sync failed (or dialled from an empty store)".into());
            }
            if i == map[1] && a.verif_start_sync(not_syncing).await != Some(false) {
                return Err("start_sync failed (or dialled from an empty store)".into());
            }
        }
    } else {
        for a in f.actors.iter_mut() {
            a.verif_insert_namespace(ns);
        }
    }
    let res = if std::env::var_os("DV_C11_SKIP").is_some() { Ok(()) } else { run_world(f, ns, not_syncing, map, max_dials, chooser, lifecycle, o, &mut note).await };
    if lifecycle {
        // leave everything and remove the documents again (the fixture's stores are reused by the next case)
        for a in f.actors.iter_mut() {
            for d in [ns, not_syncing] {
                let _ = a.verif_leave(d).await;
                let sync = a.verif_sync_handle();
                while let Ok(false) = sync.close(d).await {}
                let _ = sync.drop_replica(d).await;
            }
        }
    }
    if !lifecycle {
        // forget the case's namespace again (the fixture's actors live as long as the worker): `leave` removes the
        // coordination state first and then fails on the store, which never knew the document
        for a in f.actors.iter_mut() {
            let _ = a.verif_leave(ns).await;
        }
    }
    res.map(|_| note)
}

/// The store must not show a trace of sessions that were declined, lost or failed: no useful peer registered, no entries.
async fn store_untouched(f: &Fixture, node: usize, doc: NamespaceId, what: &str) -> R<Option<String>> {
    let sync = f.actors[node].verif_sync_handle();
    es(sync.open(doc, Default::default()).await)?;
    let peers = es(sync.get_sync_peers(doc).await)?;
    let entries = crate::act::dump(&sync, doc).await?;
    let _ = es(sync.close(doc).await)?;
    if let Some(p) = peers {
        return Ok(Some(format!("{what}: the store now lists {} useful peer(s) for the document", p.len())));
    }
    if !entries.is_empty() {
        return Ok(Some(format!("{what}: the store now holds {} entries", entries.len())));
    }
    Ok(None)
}

#[allow(clippy::too_many_arguments)]
async fn run_world(f: &mut Fixture, ns: NamespaceId, not_syncing: NamespaceId, map: [usize; 2], max_dials: u8, chooser: &mut Chooser<'_>, lifecycle: bool, o: &mut Outcome, note: &mut StoreNote) -> R<()> {
    o.class(if f.ids[map[0]].as_bytes() > f.ids[map[1]].as_bytes() { "node0-has-greater-id" } else { "node0-has-smaller-id" });
    let mut w = World {
        ns,
        map,
        inflight: vec![],
        next_id: 1,
        dials: 0,
        in_progress: vec![],
        refused_report: [None, None],
        refused_since_running: [false, false],
        step: 0,
        lost_something: false,
        two_requests_at_once: false,
        dial_while_other_running: false,
        pair: None,
        last_event_was_dial_of: None,
        syncing: [true, true],
        queued: [vec![], vec![]],
        next_hash: 0,
        leaves: 0,
        ok_completions: [0, 0],
        real_accepts: 0,
        neighbor_downs: 0,
        start_again: 0,
    };

    // (I5, lifecycle) node 1 syncs `not_syncing`, node 0 only holds it: node 1's dial must be declined as not found, the
    // decline must leave node 0's state and both stores untouched and free node 1's slot
    if lifecycle {
        let (acc, con) = (map[0], map[1]);
        let started = f.actors[con].verif_sync_with_peer(not_syncing, f.ids[acc], SyncReason::DirectJoin);
        if !started {
            o.fail("C11/dial-refused-while-idle", "node 1 refused to dial for a document it syncs".to_string());
            return Ok(());
        }
        let out = f.actors[acc].accept_sync_request(not_syncing, f.ids[con]);
        if !matches!(out, AcceptOutcome::Reject(AbortReason::NotFound)) {
            o.fail("C11/I5-not-found", format!("a request for a document that is held but not syncing got {:?}", out));
            return Ok(());
        }
        let _ = f.actors[acc].verif_accept_finished(Err(AcceptError::Abort { peer: f.ids[con], namespace: not_syncing, reason: AbortReason::NotFound })).await;
        let again = f.actors[con].verif_connect_finished(not_syncing, f.ids[acc], SyncReason::DirectJoin, Err(ConnectError::RemoteAbort(AbortReason::NotFound))).await;
        if again {
            o.fail("C11/I3-resync-without-refused-report", "a dial declined as not found was followed by another dial".to_string());
            return Ok(());
        }
        if f.actors[acc].verif_is_syncing(&not_syncing) {
            o.fail("C11/I5-not-found", "the declined request made the accepting node sync the document".to_string());
            return Ok(());
        }
        if is_running(&f.actors[con].verif_snapshot(&not_syncing, &f.ids[acc])) {
            o.fail("C11/I4-stuck-running-connect", "declined as not found, but the dialling node still marks the peer as running".to_string());
            return Ok(());
        }
        note.declined_or_failed_sessions_observed += 1;
        for (node, who) in [(acc, "the accepting node declined a request as not found"), (con, "the dialling node's request was declined as not found")] {
            if let Some(v) = store_untouched(f, node, not_syncing, who).await? {
                note.violation.get_or_insert(v);
            }
        }
    }
    // (I5) a request for a document that is not syncing
    {
        let before = (snapshot(f, &w, 0).await, snapshot(f, &w, 1).await);
        let out = f.actors[map[0]].accept_sync_request(not_syncing, f.ids[map[1]]);
        if !matches!(out, AcceptOutcome::Reject(AbortReason::NotFound)) {
            o.fail("C11/I5-not-found", format!("a request for a document that is not syncing got {:?}", out));
            return Ok(());
        }
        if before != (snapshot(f, &w, 0).await, snapshot(f, &w, 1).await) {
            o.fail("C11/I5-not-found", "the declined request changed the state".to_string());
            return Ok(());
        }
    }

    let mut draining = false;
    let mut guard = 0;
    loop {
        guard += 1;
        if guard > 400 {
            o.fail("C11/no-quiescence", "the world does not become quiet within 400 events".to_string());
            return Ok(());
        }
        // enabled events, flavours spelled out: dial at node n for a reason (while budget), deliver an in-flight item
        // (session ends: successfully or with an error), lose a request or an allow reply
        #[derive(Clone, Debug)]
        enum Ev {
            Dial(usize, SyncReason),
            Deliver(usize, bool),
            Lose(usize),
            Leave(usize),
            Join(usize),
            Queue(usize),
            Ready(usize, bool),
            /// a real accepting side (`BobState::run` on the node's own store actor) whose first message fails locally
            RealFailingAccept(usize),
            /// the application calls start_sync once more for a document that is already being synced (to add peers, or
            /// because a ticket for it was imported again): whatever is in flight, the slots kept for the peers stay as they are
            StartSyncAgain(usize),
            /// gossip tells node n that the peer is no longer its neighbour (through the real inbox dispatch, hook H10): that
            /// is news about the swarm, not about the sessions - nothing the coordination state says may change
            NeighborDown(usize),
        }
        let mut enabled: Vec<Ev> = vec![];
        if !draining && w.dials < max_dials {
            for n in 0..2 {
                enabled.push(Ev::Dial(n, SyncReason::NewNeighbor));
                enabled.push(Ev::Dial(n, SyncReason::SyncReport));
            }
        }
        if lifecycle && !draining {
            for n in 0..2 {
                // a leave only when nothing is in flight: sessions that overlap a leave (and their stale completions after a
                // re-join) are outside the property's quantifier
                if w.syncing[n] && w.leaves < 3 && w.inflight.is_empty() {
                    enabled.push(Ev::Leave(n));
                }
                // likewise a re-join only when nothing is in flight: the bookkeeping of a request declined as "not found"
                // runs through the ordinary finish path, so if it is delayed past a re-join + dial it frees the new slot
                // (observed on the unchanged tree; starting to sync a document is not among the events the property
                // quantifies over, so it is not judged)
                if !w.syncing[n] && w.inflight.is_empty() {
                    enabled.push(Ev::Join(n));
                }
                if w.queued[n].len() < 2 {
                    enabled.push(Ev::Queue(n));
                }
                if !w.queued[n].is_empty() {
                    enabled.push(Ev::Ready(n, true));
                    enabled.push(Ev::Ready(n, false));
                }
                if w.syncing[n] && w.inflight.is_empty() && w.real_accepts < 2 {
                    enabled.push(Ev::RealFailingAccept(n));
                }
                if w.neighbor_downs < 3 {
                    enabled.push(Ev::NeighborDown(n));
                }
                if w.syncing[n] && w.start_again < 2 {
                    enabled.push(Ev::StartSyncAgain(n));
                }
            }
        }
        for (i, it) in w.inflight.iter().enumerate() {
            enabled.push(Ev::Deliver(i, true));
            match it {
                Item::Request { .. } => enabled.push(Ev::Lose(i)),
                Item::Reply { allow: Some(_), .. } => enabled.push(Ev::Lose(i)),
                Item::ConnEnd { .. } => enabled.push(Ev::Deliver(i, false)),
                Item::AcceptEnd { session: Some(_), .. } => enabled.push(Ev::Deliver(i, false)),
                // a declined request whose decline cannot be delivered (the dialler has gone away); lifecycle mode only, so
                // that the exhaustively enumerated schedule space of the basic mode stays what it was
                Item::AcceptEnd { session: None, rejected: Some(_), .. } if lifecycle => enabled.push(Ev::Deliver(i, false)),
                _ => {}
            }
        }
        let ev = match chooser {
            Chooser::Picks { picks, drain, drain_i } => {
                if !draining {
                    match picks.next() {
                        Some(p) if !enabled.is_empty() => {
                            let mut ev = enabled[idx(p.which, enabled.len())].clone();
                            if let Ev::Dial(n, _) = ev {
                                if p.flavour % 3 == 2 {
                                    ev = Ev::Dial(n, SyncReason::DirectJoin);
                                }
                            }
                            ev
                        }
                        _ => {
                            draining = true;
                            continue;
                        }
                    }
                } else {
                    if w.inflight.is_empty() {
                        break;
                    }
                    let sel = drain.get(*drain_i).copied().unwrap_or(0);
                    *drain_i += 1;
                    // while draining only deliveries (in the generated order), with successful completions
                    Ev::Deliver(idx(sel, w.inflight.len()), true)
                }
            }
            Chooser::Exact { choices, lens, step } => {
                if enabled.is_empty() {
                    break;
                }
                lens.push(enabled.len());
                let c = choices.get(*step).copied().unwrap_or(0) as usize;
                *step += 1;
                if c >= enabled.len() {
                    // not a schedule (only happens for subtree prefixes): stop quietly
                    return Ok(());
                }
                enabled[c].clone()
            }
        };
        w.step += 1;
        if std::env::var_os("DV_TRACE").is_some() {
            eprintln!("step {} {:?} syncing={:?} inflight={:?}", w.step, ev, w.syncing, w.inflight);
        }
        let dialled_before = w.last_event_was_dial_of.take();
        match ev {
            Ev::Dial(n, reason) => {
                let me = w.map[n];
                let peer = f.ids[w.map[1 - n]];
                let other_running = is_running(&snapshot(f, &w, 1 - n).await);
                let mine_before = snapshot(f, &w, n).await;
                let started = if lifecycle && reason == SyncReason::SyncReport {
                    // through the real report handler (hook H9): the documents of a lifecycle run exist and are empty, so a
                    // report naming any author is news
                    let mut heads = iroh_docs::AuthorHeads::default();
                    heads.insert(iroh_docs::AuthorId::from(&[0x77u8; 32]), 1 + w.step as u64);
                    o.class("sync-report-through-the-real-report-handler");
                    f.actors[me].verif_sync_report(peer, w.ns, es(heads.encode(None))?).await
                } else {
                    f.actors[me].verif_sync_with_peer(w.ns, peer, reason)
                };
                // every dial decision counts against the budget, also a refused one
                w.dials += 1;
                if !w.syncing[n] {
                    if started {
                        o.fail("C11/dial-for-a-left-document", format!("step {}: node {n} dialled for a document it has left", w.step));
                        return Ok(());
                    }
                    o.class("dial-decision-for-a-left-document");
                    continue;
                }
                if started {
                    if is_running(&mine_before) {
                        o.fail("C11/dial-while-running", format!("step {}: node {n} started a dial while its slot was {:?}", w.step, mine_before));
                        return Ok(());
                    }
                    let id = w.next_id;
                    w.next_id += 1;
                    if w.inflight.iter().any(|i| matches!(i, Item::Request { .. })) {
                        w.two_requests_at_once = true;
                        // (I2): two dials back to back
                        if let (Some(prev), Some(Item::Request { from, .. })) = (dialled_before, w.inflight.iter().find(|i| matches!(i, Item::Request { id: pid, .. } if Some(*pid) == dialled_before))) {
                            if *from != n {
                                w.pair = Some((prev, id, vec![]));
                            }
                        }
                    }
                    if other_running {
                        w.dial_while_other_running = true;
                    }
                    w.inflight.push(Item::Request { from: n, reason, id });
                    w.refused_since_running[n] = false;
                    w.refused_report[n] = None; // a dial after the refusal: the report is followed up
                    w.last_event_was_dial_of = Some(id);
                    o.class("dial-started");
                } else {
                    if !is_running(&mine_before) {
                        o.fail("C11/dial-refused-while-idle", format!("step {}: node {n} refused to dial although its slot was {:?}", w.step, mine_before));
                        return Ok(());
                    }
                    if reason == SyncReason::SyncReport {
                        w.refused_report[n] = Some(w.step);
                        w.refused_since_running[n] = true;
                        o.class("sync-report-refused-while-running");
                    }
                }
            }
            Ev::Leave(n) => {
                let me = w.map[n];
                if !f.actors[me].verif_leave(w.ns).await {
                    return Err("leave failed".into());
                }
                w.syncing[n] = false;
                w.leaves += 1;
                // the property does not speak about sessions that overlap a leave: forget them, and what the node owed
                w.in_progress.clear();
                w.refused_report[n] = None;
                w.refused_since_running[n] = false;
                w.pair = None;
                o.class("left-the-document");
                if !w.inflight.is_empty() {
                    o.class("left-the-document-with-items-in-flight");
                }
            }
            Ev::Join(n) => {
                let me = w.map[n];
                let Some(started) = f.actors[me].verif_start_sync(w.ns).await else {
                    return Err("start_sync failed".into());
                };
                w.syncing[n] = true;
                w.pair = None;
                o.class("re-joined-the-document");
                if started {
                    // start_sync dials the peers the store remembers as useful (those a session finished successfully with)
                    if w.ok_completions[n] == 0 {
                        // the store remembers the peer of a declined / failed session: C10's clause, not C11's
                        note.violation.get_or_insert(format!("step {}: node {n} re-joined and dialled the peer, but no session with it ever finished successfully there: the store kept a trace of a declined, lost or failed session", w.step));
                    }
                    let id = w.next_id;
                    w.next_id += 1;
                    if w.inflight.iter().any(|i| matches!(i, Item::Request { .. })) {
                        w.two_requests_at_once = true;
                    }
                    w.inflight.push(Item::Request { from: n, reason: SyncReason::DirectJoin, id });
                    o.class("re-join-dialled-the-remembered-peer");
                }
            }
            Ev::StartSyncAgain(n) => {
                let me = w.map[n];
                let peer = f.ids[w.map[1 - n]];
                w.start_again += 1;
                let before = f.actors[me].verif_snapshot(&w.ns, &peer);
                let Some(started) = f.actors[me].verif_start_sync(w.ns).await else {
                    return Err("start_sync failed".into());
                };
                let after = f.actors[me].verif_snapshot(&w.ns, &peer);
                o.class("start-sync-again-while-syncing");
                if !w.inflight.is_empty() {
                    o.class("start-sync-again-with-items-in-flight");
                }
                if started {
                    // it dials the peers the store remembers as useful - only from an idle slot
                    if is_running(&before) {
                        o.fail("C11/dial-while-running", format!("step {}: a repeated start_sync at node {n} dialled the peer although its slot was {before:?}", w.step));
                        return Ok(());
                    }
                    let id = w.next_id;
                    w.next_id += 1;
                    if w.inflight.iter().any(|i| matches!(i, Item::Request { .. })) {
                        w.two_requests_at_once = true;
                    }
                    w.inflight.push(Item::Request { from: n, reason: SyncReason::DirectJoin, id });
                } else if format!("{before:?}") != format!("{after:?}") {
                    o.fail(
                        "C11/start-sync-again-changed-the-slot",
                        format!("step {}: a repeated start_sync at node {n} changed the state kept for the peer from {before:?} to {after:?}; {} items in flight", w.step, w.inflight.len()),
                    );
                    return Ok(());
                }
            }
            Ev::NeighborDown(n) => {
                let me = w.map[n];
                let peer = f.ids[w.map[1 - n]];
                w.neighbor_downs += 1;
                let before = f.actors[me].verif_snapshot(&w.ns, &peer);
                let dialled = f.actors[me].verif_actor_message(iroh_docs::verif::engine::ToLiveActor::NeighborDown { namespace: w.ns, peer }).await;
                let after = f.actors[me].verif_snapshot(&w.ns, &peer);
                o.class("neighbor-down-event");
                if !w.inflight.is_empty() {
                    o.class("neighbor-down-event-with-items-in-flight");
                }
                if dialled || format!("{before:?}") != format!("{after:?}") {
                    o.fail(
                        "C11/neighbor-down-changed-the-slot",
                        format!("step {}: a neighbour-down notice at node {n} changed the state kept for the peer from {before:?} to {after:?} (dialled: {dialled}); {} items in flight", w.step, w.inflight.len()),
                    );
                    return Ok(());
                }
            }
            Ev::Queue(n) => {
                let me = w.map[n];
                let h = w.next_hash;
                w.next_hash += 1;
                f.actors[me].verif_queue_hash(w.ns, iroh_blobs::Hash::new([h, 0x51]));
                w.queued[n].push(h);
            }
            Ev::Ready(n, ok) => {
                let me = w.map[n];
                let h = w.queued[n].remove(0);
                f.actors[me].verif_download_ready(w.ns, iroh_blobs::Hash::new([h, 0x51]), ok).await;
                if !w.syncing[n] {
                    o.class("download-completed-after-leaving");
                }
                if f.actors[me].verif_is_syncing(&w.ns) != w.syncing[n] {
                    o.fail(
                        "C11/I5-left-document-syncing-again",
                        format!("step {}: a download completion at node {n} changed whether the document is synced there (model {}, node {})", w.step, w.syncing[n], !w.syncing[n]),
                    );
                    return Ok(());
                }
            }
            Ev::RealFailingAccept(n) => {
                // the peer's request arrives at node n, the live actor decides, and the *real* acceptor runs on node n's store
                // actor with sync switched off for the document, so that handling the first message fails locally; the
                // error it reports is fed to the real completion handler: the slot must be free again afterwards
                w.real_accepts += 1;
                let me = w.map[n];
                let peer = f.ids[w.map[1 - n]];
                let decision = f.actors[me].accept_sync_request(w.ns, peer);
                let allowed = matches!(decision, AcceptOutcome::Allow);
                let h = f.actors[me].verif_sync_handle();
                es(h.set_sync(w.ns, false).await)?;
                let init = {
                    let mut scratch = Store::memory();
                    es(scratch.import_namespace(iroh_docs::Capability::Read(w.ns)))?;
                    let m = es(es(scratch.open_replica(&w.ns))?.sync_initial_message())?;
                    iroh_docs::verif::net::Frame::init(w.ns, m)
                };
                let (peer_io, bob_io) = tokio::io::duplex(1 << 16);
                let (br, bw) = tokio::io::split(bob_io);
                let (_pr, mut pw) = tokio::io::split(peer_io);
                {
                    use tokio::io::AsyncWriteExt;
                    use tokio_util::codec::Encoder;
                    let mut buf = bytes::BytesMut::new();
                    es(iroh_docs::verif::net::FrameCodec::default().encode(init, &mut buf))?;
                    es(pw.write_all(&buf).await)?;
                    let _ = pw.shutdown().await;
                }
                let mut st = iroh_docs::verif::net::BobState::new(peer);
                let d2 = decision.clone();
                let res = tokio::time::timeout(std::time::Duration::from_secs(20), st.run(bw, br, h.clone(), move |_n, _p| std::future::ready(d2.clone()))).await;
                es(h.set_sync(w.ns, true).await)?;
                let Ok(res) = res else { return Err("harness-timeout: the real acceptor (one frame, then end of stream) did not finish within 20 s".into()) };
                o.class(if allowed { "real-acceptor-failed-on-its-first-message(after-allow)" } else { "real-acceptor-declined" });
                let res = match res {
                    Ok(_) => return Err("the acceptor was expected to fail (sync is off for the document)".into()),
                    Err(e) => e,
                };
                let started = f.actors[me].verif_accept_finished(Err(res)).await;
                note_followup(&mut w, n, started, o, "the real acceptor's end");
                let after = snapshot(f, &w, n).await;
                if allowed && is_running(&after) {
                    o.fail(
                        "C11/I4-stuck-running-accept",
                        format!("step {}: node {n} allowed a request, the accepting side failed on the first message and reported its error, but the node still marks the peer as {:?}", w.step, after),
                    );
                    return Ok(());
                }
            }
            Ev::Lose(i) => {
                let it = w.inflight.remove(i);
                w.lost_something = true;
                w.pair = None;
                match it {
                    Item::Request { from, reason, .. } => {
                        let me = w.map[from];
                        let peer = f.ids[w.map[1 - from]];
                        let started = f.actors[me].verif_connect_finished(w.ns, peer, reason, Err(ConnectError::Connect { error: anyhow::anyhow!("lost") })).await;
                        note_followup(&mut w, from, started, o, "a lost request");
                        o.class("request-lost");
                    }
                    Item::Reply { to, reason, allow, .. } => {
                        // the allow never reaches the connector: its stream fails
                        let me = w.map[to];
                        let peer = f.ids[w.map[1 - to]];
                        if let Some(s) = allow {
                            w.in_progress.retain(|x| *x != s);
                        }
                        let started = f.actors[me].verif_connect_finished(w.ns, peer, reason, Err(ConnectError::Sync { error: anyhow::anyhow!("stream reset") })).await;
                        note_followup(&mut w, to, started, o, "a lost reply");
                        o.class("reply-lost");
                    }
                    _ => {}
                }
            }
            Ev::Deliver(i, ok) => {
                let it = w.inflight.remove(i);
                match it {
                    Item::Request { from, reason, id } => {
                        let acc = 1 - from;
                        let me = w.map[acc];
                        let peer = f.ids[w.map[from]];
                        let out = f.actors[me].accept_sync_request(w.ns, peer);
                        let allowed = matches!(out, AcceptOutcome::Allow);
                        if !w.syncing[acc] {
                            o.class("request-for-a-left-document");
                            if !matches!(out, AcceptOutcome::Reject(AbortReason::NotFound)) {
                                o.fail("C11/I5-not-found", format!("step {}: node {acc} has left the document, but a request for it got {:?}", w.step, out));
                                return Ok(());
                            }
                        }
                        if let Some((p1, p2, results)) = &mut w.pair {
                            if id == *p1 || id == *p2 {
                                results.push(Some(allowed));
                                if results.len() == 2 {
                                    let n = results.iter().filter(|r| **r == Some(true)).count();
                                    o.class("I2-simultaneous-pair-judged");
                                    if n != 1 {
                                        o.fail("C11/I2-simultaneous-dials", format!("step {}: two simultaneous requests were delivered back to back and {n} of them were allowed", w.step));
                                        return Ok(());
                                    }
                                    w.pair = None;
                                }
                            } else {
                                w.pair = None;
                            }
                        }
                        match out {
                            AcceptOutcome::Allow => {
                                if !w.in_progress.is_empty() {
                                    o.fail(
                                        "C11/I1-two-sessions",
                                        format!("step {}: node {acc} allowed a request while session(s) {:?} of the pair were still in progress on both ends", w.step, w.in_progress),
                                    );
                                    return Ok(());
                                }
                                let s = w.next_id;
                                w.next_id += 1;
                                w.in_progress.push(s);
                                w.inflight.push(Item::Reply { to: from, reason, allow: Some(s), reject: None });
                                w.inflight.push(Item::AcceptEnd { at: acc, session: Some(s), rejected: None });
                                // an allowed request after a refused report at the acceptor: followed up
                                w.refused_report[acc] = None;
                                w.refused_since_running[acc] = false;
                                o.class("request-allowed");
                            }
                            AcceptOutcome::Reject(r) => {
                                w.inflight.push(Item::Reply { to: from, reason, allow: None, reject: Some(r) });
                                w.inflight.push(Item::AcceptEnd { at: acc, session: None, rejected: Some(r) });
                                o.class("request-rejected");
                            }
                        }
                    }
                    Item::Reply { to, reason, allow, reject } => {
                        if w.pair.is_some() {
                            w.pair = None;
                        }
                        let me = w.map[to];
                        let peer = f.ids[w.map[1 - to]];
                        match (allow, reject) {
                            (Some(s), _) => {
                                w.inflight.push(Item::ConnEnd { at: to, reason, session: s });
                            }
                            (None, Some(r)) => {
                                let started = f.actors[me].verif_connect_finished(w.ns, peer, reason, Err(ConnectError::RemoteAbort(r))).await;
                                note_followup(&mut w, to, started, o, "a remote abort");
                            }
                            _ => {}
                        }
                    }
                    Item::ConnEnd { at, reason, session } => {
                        w.pair = None;
                        let me = w.map[at];
                        let peer = f.ids[w.map[1 - at]];
                        w.in_progress.retain(|x| *x != session);
                        let res = if ok { Ok(finished(w.ns, peer)) } else { Err(ConnectError::Sync { error: anyhow::anyhow!("sync failed") }) };
                        if ok {
                            w.ok_completions[at] += 1;
                        } else {
                            note.declined_or_failed_sessions_observed += 1;
                        }
                        let started = f.actors[me].verif_connect_finished(w.ns, peer, reason, res).await;
                        note_followup(&mut w, at, started, o, "the connector's end");
                        o.class(if ok { "connector-end-ok" } else { "connector-end-error" });
                    }
                    Item::AcceptEnd { at, session, rejected } => {
                        w.pair = None;
                        let me = w.map[at];
                        let peer = f.ids[w.map[1 - at]];
                        let res = match (session, rejected) {
                            (Some(s), _) => {
                                w.in_progress.retain(|x| *x != s);
                                if ok {
                                    w.ok_completions[at] += 1;
                                    Ok(finished(w.ns, peer))
                                } else {
                                    note.declined_or_failed_sessions_observed += 1;
                                    Err(AcceptError::Sync { peer, namespace: Some(w.ns), error: anyhow::anyhow!("sync failed") })
                                }
                            }
                            (None, Some(r)) => {
                                note.declined_or_failed_sessions_observed += 1;
                                if lifecycle {
                                    // the real accepting side declines: its real error value is what the live actor gets
                                    o.class(if ok { "real-acceptor-declined(decline-delivered)" } else { "real-acceptor-declined(dialler-gone,decline-undeliverable)" });
                                    Err(real_decline(f, me, peer, w.ns, r, ok).await?)
                                } else {
                                    Err(AcceptError::Abort { peer, namespace: w.ns, reason: r })
                                }
                            }
                            _ => Ok(finished(w.ns, peer)),
                        };
                        let declined_already_syncing = matches!(rejected, Some(AbortReason::AlreadySyncing));
                        let before = snapshot(f, &w, at).await;
                        let started = f.actors[me].verif_accept_finished(res).await;
                        note_followup(&mut w, at, started, o, "the acceptor's end");
                        if declined_already_syncing {
                            // the request was declined because the slot belongs to another session: however the declined
                            // request ends, that session's slot is not its to free
                            let after = snapshot(f, &w, at).await;
                            if format!("{before:?}") != format!("{after:?}") {
                                o.fail(
                                    "C11/I1-declined-request-changed-the-slot",
                                    format!("step {}: node {at} declined a request as already syncing; when the declined request ended (decline delivered: {ok}) the slot went from {before:?} to {after:?}", w.step),
                                );
                                return Ok(());
                            }
                        }
                    }
                }
            }
        }
        if o.failed() {
            return Ok(());
        }
    }

    if w.two_requests_at_once || w.dial_while_other_running || w.lost_something {
        o.nontrivial = true;
    }
    if w.two_requests_at_once {
        o.class("two-requests-in-flight-at-once");
    }
    if w.dial_while_other_running {
        o.class("dial-while-other-side-still-running");
    }

    // quiescence: nothing in flight
    let s0 = snapshot(f, &w, 0).await;
    let s1 = snapshot(f, &w, 1).await;
    for (n, s) in [(0, &s0), (1, &s1)] {
        if is_running(s) {
            let sig = match s {
                VerifPeerSnapshot::Running { origin: Origin::Connect(_), .. } => "C11/I4-stuck-running-connect",
                _ => "C11/I4-stuck-running-accept",
            };
            o.fail(sig, format!("nothing is in flight any more, but node {n} still marks the peer as {:?} (other node: {:?})", s, if n == 0 { &s1 } else { &s0 }));
            return Ok(());
        }
    }
    for n in 0..2 {
        if let Some(t) = w.refused_report[n] {
            o.fail("C11/I3-refused-report-never-followed-up", format!("a sync report was refused at node {n} at step {t} because a session was running, and no dial or allowed request followed"));
            return Ok(());
        }
    }
    if lifecycle {
        // a node at which no session finished successfully must not show a trace of the declined / lost / failed ones
        for n in 0..2 {
            if w.ok_completions[n] == 0 {
                if let Some(v) = store_untouched(f, w.map[n], w.ns, "no session finished successfully at this node (declined, lost and failed ones only)").await? {
                    note.violation.get_or_insert(v);
                }
            }
        }
    }
    // probes: a dial is accepted, and (on a fresh slot) a request is accepted
    for n in 0..2 {
        if !w.syncing[n] {
            continue;
        }
        let me = w.map[n];
        let peer = f.ids[w.map[1 - n]];
        let started = f.actors[me].verif_sync_with_peer(w.ns, peer, SyncReason::NewNeighbor);
        if !started {
            o.fail("C11/I4-probe-dial-refused", format!("at quiescence node {n} refuses to dial the peer"));
            return Ok(());
        }
        let _ = f.actors[me].verif_connect_finished(w.ns, peer, SyncReason::NewNeighbor, Err(ConnectError::Connect { error: anyhow::anyhow!("probe") })).await;
        let out = f.actors[me].accept_sync_request(w.ns, peer);
        if !matches!(out, AcceptOutcome::Allow) {
            o.fail("C11/I4-probe-request-refused", format!("at quiescence node {n} declines a request from the peer: {:?}", out));
            return Ok(());
        }
        let _ = f.actors[me].verif_accept_finished(Ok(finished(w.ns, peer))).await;
    }
    Ok(())
}
