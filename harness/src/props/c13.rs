//! C13 Author heads and news detection reflect exactly the entries held.

use std::collections::BTreeMap;

use iroh_docs::{sync::InsertError, verif, AuthorHeads, AuthorId, ContentStatus, SignedEntry};
use proptest::{collection::vec, prelude::*};
use serde::{Deserialize, Serialize};

use crate::{
    common::*,
    engine::{idx, Ctx, Outcome, Prop, Tier},
    gen::{egen, pools, to_espec, EGen, Pools},
};

pub struct C13;

#[derive(Serialize, Deserialize, Clone, Debug)]
pub enum Step {
    Remote(EGen),
    /// remove the document (closed) and import it again
    RemoveAndRecreate,
    Reopen,
    /// ask has_news_for_us with a report: (author slot 0..8, timestamp offset)
    News(Vec<(u8, u8)>),
    /// an operation on another part of the store
    Noise(Noise),
}

#[derive(Serialize, Deserialize, Clone, Debug)]
pub struct History {
    pub file: bool,
    pub pools: Pools,
    pub steps: Vec<Step>,
}

/// A set of heads: (author slot, timestamp) – slots map to synthetic author ids.
#[derive(Serialize, Deserialize, Clone, Debug)]
pub struct HeadSet {
    pub heads: Vec<(u16, u64)>,
    pub other: Vec<(u16, u64)>,
    pub limits: Vec<u16>,
    /// limits placed exactly at / one below / one above the encoded size of the k newest heads: (k as an index, delta)
    #[serde(default)]
    pub fit_limits: Vec<(u16, i8)>,
}

#[derive(Serialize, Deserialize, Clone, Debug)]
pub enum Case {
    History(History),
    Heads(HeadSet),
    /// the heads a reconciliation session reports (what the live engine broadcasts as its sync report afterwards) and what a
    /// third replica makes of that report
    Session(SessionCase),
    /// the live engine's use of heads: an incoming sync report must lead to a dial exactly when it names news, and the
    /// report the engine broadcasts after a session must carry the newest received heads that fit a gossip message
    Live(LiveCase),
}

#[derive(Serialize, Deserialize, Clone, Debug)]
pub struct LiveCase {
    /// contents of the document at the node: (author 0..4, timestamp offset, content)
    pub entries: Vec<(u8, u8, u8)>,
    /// the incoming report: (author slot, timestamp selector as in `news_ts`)
    pub report: Vec<(u8, u8)>,
    /// the document has been left before the report arrives (no dial, whatever it says)
    pub left: bool,
    /// a report that does not decode
    pub garbage: bool,
    /// heads a finished session reports as received, and its received-count (0: nothing to announce)
    pub recv: Vec<(u16, u64)>,
    pub num_recv: u8,
}

#[derive(Serialize, Deserialize, Clone, Debug)]
pub struct SessionCase {
    pub pools: Pools,
    pub a: Vec<EGen>,
    pub b: Vec<EGen>,
    pub c: Vec<EGen>,
}

fn slot_author(slot: u16) -> AuthorId {
    // slots 0..6 are the pool authors (so that they can match replica contents), others synthetic
    if (slot as usize) < N_AUTHORS {
        author(slot as u8).id()
    } else {
        let mut b = [0u8; 32];
        b[0] = slot as u8;
        b[1] = (slot >> 8) as u8;
        b[31] = (slot as u8).wrapping_mul(7);
        AuthorId::from(&b)
    }
}

/// Timestamps a peer's head report may name: near the entries' own (T0 + t), or anything else a u64 can hold - also far
/// beyond what the receiver would accept as an entry (a report is not an entry).
fn news_ts(t: u8) -> u64 {
    const FAR: [u64; 8] = [0, 1, T0 - 1, T0 + 3 + 600_000_000, T0 + 3 + 600_000_001, T0 + 3 + 3_600_000_000, u64::MAX - 1, u64::MAX];
    if t < 8 {
        T0 + t as u64
    } else {
        FAR[(t as usize - 8) % FAR.len()]
    }
}

fn ts_strategy() -> impl Strategy<Value = u64> {
    prop_oneof![
        6 => (0u64..6).prop_map(|t| T0 + t),
        2 => 0u64..300,                 // 1- and 2-byte varints
        1 => Just(u64::MAX),
        1 => any::<u64>(),
    ]
}

fn varint_len(mut v: u64) -> usize {
    let mut n = 1;
    while v >= 0x80 {
        v >>= 7;
        n += 1;
    }
    n
}

impl Prop for C13 {
    type Case = Case;
    const ID: &'static str = "C13";

    fn rule() -> String {
        "(a) histories of remote inserts in any timestamp order, deletions, reopen, document removal + re-creation: after every step \
         the reported heads must equal the per-author maxima of the entries held and has_news_for_us must count exactly the authors \
         of a generated report that are unknown or strictly newer; (b) head sets of 0..=12 authors with shared timestamps: \
         encode/decode identity without limit, and under every generated limit: length <= limit, decoded subset, the k greatest \
         timestamps with k maximal; non-trivial = (a) an older entry of an author arrives after a newer one at another key, or a \
         removal with data, (b) >= 2 authors on one timestamp or a limit that cuts the set; (c) two replicas are reconciled and each \
         side's reported heads_received (what the engine broadcasts as its sync report) must be the per-author maxima of the entries \
         it was sent according to the transcript, and a third replica must count exactly the unknown / strictly newer authors of that \
         report as news; (d) at a real live actor (hook H9): an incoming sync report for a document with generated contents leads to a \
         dial of the reporting peer exactly when it names news (never for a left document or an undecodable report), and after a \
         finished session with generated heads_received / received-count exactly one report is handed to gossip iff something was \
         received, naming this document and the newest received heads that fit the gossip message limit (maximal); distinct by \
         serialised case"
            .into()
    }

    fn cases(tier: Tier) -> u64 {
        tier.pick(200_000, 4_000_000)
    }

    fn strategy(tier: Tier) -> BoxedStrategy<Case> {
        let max_steps = tier.pick(16, 40);
        let step = prop_oneof![
            8 => egen().prop_map(Step::Remote),
            1 => Just(Step::RemoveAndRecreate),
            1 => Just(Step::Reopen),
            3 => vec((0u8..8, prop_oneof![4 => 0u8..8, 1 => 8u8..16]), 0..=4).prop_map(Step::News),
            2 => crate::gen::noise().prop_map(Step::Noise),
        ];
        let hist = (prop::bool::weighted(0.2), pools(6), vec(step, 1..=max_steps))
            .prop_map(|(file, pools, steps)| Case::History(History { file, pools, steps }));
        let fit = || vec((any::<u16>(), -1i8..=1), 0..=4);
        let heads = (
            vec((0u16..13, ts_strategy()), 0..=12),
            vec((0u16..13, ts_strategy()), 0..=12),
            vec(prop_oneof![30 => 1u16..120, 10 => 120u16..600, 1 => Just(u16::MAX)], 1..=6),
            fit(),
        )
            .prop_map(|(heads, other, limits, fit_limits)| Case::Heads(HeadSet { heads, other, limits, fit_limits }));
        // large sets: the list-length prefix of the encoding grows to two bytes at 128 kept heads, timestamps of mixed varint width
        let many = (
            vec((0u16..400, ts_strategy()), 100..=320),
            vec((0u16..400, ts_strategy()), 0..=40),
            vec(prop_oneof![1 => 1u16..600, 3 => 600u16..14000], 1..=4),
            vec((prop_oneof![1 => any::<u16>(), 1 => 20000u16..34000], -1i8..=1), 1..=6),
        )
            .prop_map(|(heads, other, limits, fit_limits)| Case::Heads(HeadSet { heads, other, limits, fit_limits }));
        let session = (pools(6), vec(egen(), 0..=8), vec(egen(), 0..=8), vec(egen(), 0..=8)).prop_map(|(pools, a, b, c)| Case::Session(SessionCase { pools, a, b, c }));
        let live = (
            vec((0u8..4, 0u8..8, 0u8..4), 0..=6),
            vec((0u8..6, prop_oneof![4 => 0u8..8, 1 => 8u8..16]), 0..=4),
            prop::bool::weighted(0.15),
            prop::bool::weighted(0.1),
            prop_oneof![6 => vec((0u16..13, ts_strategy()), 0..=8), 1 => vec((0u16..400, ts_strategy()), 80..=200)],
            prop_oneof![1 => Just(0u8), 3 => 1u8..=255],
        )
            .prop_map(|(entries, report, left, garbage, recv, num_recv)| Case::Live(LiveCase { entries, report, left, garbage, recv, num_recv }));
        prop_oneof![100 => hist, 190 => heads, 10 => many, 10 => session, 3 => live].boxed()
    }

    fn check(ctx: &mut Ctx, case: &Case) -> Outcome {
        match case {
            Case::History(h) => check_history(ctx, h),
            Case::Heads(h) => check_heads(h),
            Case::Session(s) => check_session(ctx, s),
            Case::Live(l) => check_live(ctx, l),
        }
    }

    fn assumptions() -> Vec<String> {
        vec![
            "size limits below 1 byte cannot be met by any encoding (the empty list takes 1 byte); generated limits start at 1".into(),
            "with several entries of an author at the head timestamp any of their keys is accepted as the head key".into(),
        ]
    }
}

fn check_heads(h: &HeadSet) -> Outcome {
    let mut o = Outcome::default();
    o.class("heads");
    let mut set = AuthorHeads::default();
    let mut model: BTreeMap<AuthorId, u64> = BTreeMap::new();
    for (slot, ts) in &h.heads {
        set.insert(slot_author(*slot), *ts);
        let e = model.entry(slot_author(*slot)).or_insert(0);
        *e = (*e).max(*ts);
    }
    // insert keeps the maximum
    for (a, t) in &model {
        if set.get(a) != Some(*t) {
            o.fail("C13/insert-max", format!("after inserts {:?} head of {} is {:?}, expected {}", h.heads, hex::encode(&a.as_bytes()[..2]), set.get(a), t));
            return o;
        }
    }
    if set.len() != model.len() {
        o.fail("C13/insert-max", "len mismatch");
        return o;
    }
    let mut by_ts: BTreeMap<u64, usize> = BTreeMap::new();
    for t in model.values() {
        *by_ts.entry(*t).or_insert(0) += 1;
    }
    let shared = by_ts.values().any(|n| *n >= 2);
    if shared {
        o.class("heads/shared-timestamp");
        o.nontrivial = true;
    }
    // no limit: identity
    match set.encode(None) {
        Err(e) => o.fail("C13/encode-error", format!("{e:?}")),
        Ok(bytes) => match AuthorHeads::decode(&bytes) {
            Err(e) => o.fail("C13/decode-error", format!("{e:?}")),
            Ok(back) => {
                if back != set {
                    o.fail(
                        "C13/encode-unlimited-loses-authors",
                        format!("heads {:?}: encode(None) then decode gives {} of {} authors", h.heads, back.len(), set.len()),
                    );
                }
            }
        },
    }
    if o.failed() {
        return o;
    }
    // limits
    let mut sorted: Vec<u64> = model.values().copied().collect();
    sorted.sort_by(|a, b| b.cmp(a));
    let size_of_newest = |k: usize| -> usize { varint_len(k as u64) + sorted[..k].iter().map(|t| 32 + varint_len(*t)).sum::<usize>() };
    // 65535 stands for "as large as a limit can be"
    let mut limits: Vec<usize> = h.limits.iter().map(|l| if *l == u16::MAX { usize::MAX } else { *l as usize }).collect();
    for (kraw, delta) in &h.fit_limits {
        let k = crate::engine::idx(*kraw, sorted.len() + 1);
        let l = (size_of_newest(k) as i64 + *delta as i64).max(1) as usize;
        limits.push(l);
        o.class("heads/limit-at-an-exact-fit-boundary");
        if k >= 128 {
            o.class("heads/exact-fit-with->=128-heads-kept");
        }
    }
    if model.len() >= 128 {
        o.class("heads/>=128-authors");
    }
    for l in &limits {
        let l = *l;
        // k maximal such that the k newest fit
        let mut k = 0;
        let mut body = 0usize;
        while k < sorted.len() {
            let nb = body + varint_len(sorted[k]) + 32;
            if varint_len((k + 1) as u64) + nb > l {
                break;
            }
            body = nb;
            k += 1;
        }
        if k < sorted.len() {
            o.class("heads/limit-cuts");
            o.nontrivial = true;
        }
        let bytes = match set.encode(Some(l)) {
            Ok(b) => b,
            Err(e) => {
                o.fail("C13/encode-error", format!("{e:?}"));
                return o;
            }
        };
        if bytes.len() > l {
            o.fail("C13/limit-exceeded", format!("limit {l}: {} bytes", bytes.len()));
            return o;
        }
        let back = match AuthorHeads::decode(&bytes) {
            Ok(b) => b,
            Err(e) => {
                o.fail("C13/decode-error", format!("{e:?}"));
                return o;
            }
        };
        let mut got: Vec<u64> = vec![];
        for (a, t) in back.iter() {
            if model.get(a) != Some(t) {
                o.fail("C13/limit-not-subset", format!("limit {l}: decoded ({}, {t}) is not in the set", hex::encode(&a.as_bytes()[..2])));
                return o;
            }
            got.push(*t);
        }
        got.sort_by(|a, b| b.cmp(a));
        if got != sorted[..k].to_vec() {
            o.fail(
                "C13/limit-not-newest-that-fit",
                format!("heads {:?} limit {l}: kept timestamps {:?}, the newest that fit are {:?}", h.heads, got, &sorted[..k]),
            );
            return o;
        }
    }
    // has_news_for
    let mut other = AuthorHeads::default();
    let mut omodel: BTreeMap<AuthorId, u64> = BTreeMap::new();
    for (slot, ts) in &h.other {
        other.insert(slot_author(*slot), *ts);
        let e = omodel.entry(slot_author(*slot)).or_insert(0);
        *e = (*e).max(*ts);
    }
    let want = model.iter().filter(|(a, t)| omodel.get(*a).map(|o| **t > *o).unwrap_or(true)).count() as u64;
    let got = set.has_news_for(&other).map(|n| n.get()).unwrap_or(0);
    if got != want {
        o.fail("C13/has-news-for", format!("{:?} has_news_for {:?}: {got}, expected {want}", h.heads, h.other));
    }
    o
}

fn check_history(ctx: &mut Ctx, h: &History) -> Outcome {
    let mut o = Outcome::default();
    o.class(if h.file { "history/file" } else { "history/memory" });
    let r: R<()> = (|| {
        let keys = h.pools.keys();
        let authors = h.pools.authors();
        let nssec = namespace(h.pools.ns).clone();
        let ns = nssec.id();
        let mut st = AnyStore::new(ctx, h.file)?;
        es(st.store.import_namespace(nssec.clone().into()))?;
        verif::set_clock(Some(T0 + 3));
        // two more documents in the same store (ids on both sides are likely): their heads must never be disturbed
        let mut bystanders = vec![];
        let mut noise_state = NoiseState::default();
        for d in 1..=2u8 {
            let other = namespace((h.pools.ns + d) % N_NAMESPACES as u8).clone();
            let es_: Vec<SignedEntry> = (0..3u8).map(|j| sign(&other, &ESpec { a: j % 2, k: vec![b'o', j], t: T0 + (5 - j) as u64, c: 1 })).collect();
            populate(&ctx.rt, &mut st.store, &other, &es_)?;
            bystanders.push(other.id());
        }
        for (i, s) in h.steps.iter().enumerate() {
            match s {
                Step::Remote(e) => {
                    let e = sign(&nssec, &to_espec(e, &authors, &keys));
                    // older entry of the author arriving after a newer one at a different key?
                    let before = dump(&mut st.store, ns)?;
                    if before.iter().any(|x| x.author() == e.author() && x.key() != e.key() && x.timestamp() > e.timestamp()) {
                        o.class("older-arrives-after-newer-other-key");
                        o.nontrivial = true;
                    }
                    let res = ctx.rt.block_on(async {
                        let mut r = es(st.store.open_replica(&ns))?;
                        Ok::<_, String>(r.insert_remote_entry(e.clone(), [3u8; 32], ContentStatus::Missing).await)
                    })?;
                    st.store.close_replica(ns);
                    match res {
                        Ok(_) | Err(InsertError::NewerEntryExists) => {}
                        Err(e) => return Err(format!("unexpected insert error {e:?}")),
                    }
                }
                Step::RemoveAndRecreate => {
                    let had = !dump(&mut st.store, ns)?.is_empty();
                    es(st.store.remove_replica(&ns))?;
                    let hd = heads(&mut st.store, ns)?;
                    if !hd.is_empty() {
                        o.fail("C13/heads-survive-removal", format!("step {i}: after remove_replica the heads are still {:?}", hd.values().collect::<Vec<_>>()));
                        break;
                    }
                    let mut rep = AuthorHeads::default();
                    rep.insert(author(0).id(), 1);
                    if es(st.store.has_news_for_us(ns, &rep))?.map(|n| n.get()) != Some(1) {
                        o.fail("C13/news-after-removal", format!("step {i}: a removed document must treat every reported author as news"));
                        break;
                    }
                    es(st.store.import_namespace(nssec.clone().into()))?;
                    if had {
                        o.class("removal-with-data");
                        o.nontrivial = true;
                    }
                }
                Step::Reopen => {
                    st = st.reopen()?;
                }
                Step::Noise(nz) => {
                    if ns != noise_namespace().id() {
                        if let Err(e) = apply_noise(&ctx.rt, &mut st.store, nz, &mut noise_state) {
                            o.fail("C13/noise", format!("{:?}: {e}", nz));
                            break;
                        }
                        o.class("noise-on-other-parts-of-the-store");
                    }
                }
                Step::News(report) => {
                    let d = dump(&mut st.store, ns)?;
                    let mut mine: BTreeMap<AuthorId, u64> = BTreeMap::new();
                    for e in &d {
                        let t = mine.entry(e.author()).or_insert(0);
                        *t = (*t).max(e.timestamp());
                    }
                    let mut rep = AuthorHeads::default();
                    let mut repm: BTreeMap<AuthorId, u64> = BTreeMap::new();
                    for (slot, t) in report {
                        let a = if (*slot as usize) < authors.len() { author(authors[*slot as usize]).id() } else { slot_author(*slot as u16 + 6) };
                        rep.insert(a, news_ts(*t));
                        let e = repm.entry(a).or_insert(0);
                        *e = (*e).max(news_ts(*t));
                    }
                    let want = repm.iter().filter(|(a, t)| mine.get(*a).map(|m| **t > *m).unwrap_or(true)).count() as u64;
                    let got = es(st.store.has_news_for_us(ns, &rep))?.map(|n| n.get()).unwrap_or(0);
                    o.class("news-query");
                    if got != want {
                        o.fail(
                            "C13/has-news-for-us",
                            format!("step {i}: report {:?} against {}: has_news_for_us = {got}, expected {want}", repm.iter().map(|(a, t)| (hex::encode(&a.as_bytes()[..2]), t - T0)).collect::<Vec<_>>(), describe_all(&d)),
                        );
                        break;
                    }
                }
            }
            let d = dump(&mut st.store, ns)?;
            if let Err(e) = heads_consistent(&mut st.store, ns, &d) {
                o.fail("C13/heads", format!("step {i} {:?}: {e}", s));
                break;
            }
            for b in &bystanders {
                let d = dump(&mut st.store, *b)?;
                if let Err(e) = heads_consistent(&mut st.store, *b, &d) {
                    o.fail("C13/heads-of-another-document", format!("step {i} {:?}: {e}", s));
                    break;
                }
            }
            if o.failed() {
                break;
            }
        }
        verif::set_clock(None);
        st.cleanup();
        Ok(())
    })();
    if let Err(e) = r {
        o.fail("C13/harness-error", e);
    }
    let _ = idx(0, 1);
    let _: Option<SignedEntry> = None;
    o
}

/// Heads reported by a session: after a complete session each side's `heads_received` must name, for every author, the
/// greatest timestamp among the entries that side was sent (an independent reading of the transcript), and a third replica
/// must flag that report as news exactly for the authors it does not know or knows only older entries of.
fn check_session(ctx: &mut Ctx, c: &SessionCase) -> Outcome {
    use crate::wire::{run_session, MMessage};
    let mut o = Outcome::default();
    o.class("session-report");
    let r: R<()> = (|| {
        let keys = c.pools.keys();
        let authors = c.pools.authors();
        let nssec = namespace(c.pools.ns).clone();
        let ns = nssec.id();
        verif::set_clock(Some(T0 + 3));
        let sign_all = |v: &Vec<EGen>| -> Vec<SignedEntry> { v.iter().map(|e| sign(&nssec, &to_espec(e, &authors, &keys))).collect() };
        let mut sa = AnyStore::new(ctx, false)?;
        let mut sb = AnyStore::new(ctx, false)?;
        let mut sc = AnyStore::new(ctx, false)?;
        populate(&ctx.rt, &mut sa.store, &nssec, &sign_all(&c.a))?;
        populate(&ctx.rt, &mut sb.store, &nssec, &sign_all(&c.b))?;
        let mc = populate(&ctx.rt, &mut sc.store, &nssec, &sign_all(&c.c))?;
        let t = run_session(&ctx.rt, &mut sa.store, &mut sb.store, ns, 200)?;
        if !t.completed {
            return Ok(()); // C01's business
        }
        // what each side was sent, read off the transcript: even messages go initiator -> responder
        let mut sent_to: [BTreeMap<AuthorId, u64>; 2] = [BTreeMap::new(), BTreeMap::new()];
        for (i, m) in t.msgs.iter().enumerate() {
            let mm: MMessage = postcard::from_bytes(m).map_err(|e| format!("mirror: {e:?}"))?;
            let to = if i % 2 == 0 { 1 } else { 0 };
            for e in mm.values() {
                let h = sent_to[to].entry(e.author()).or_insert(0);
                *h = (*h).max(e.timestamp());
            }
        }
        for (side, out, want) in [("initiator", &t.init_out, &sent_to[0]), ("responder", &t.resp_out, &sent_to[1])] {
            let got: BTreeMap<AuthorId, u64> = out.heads_received.iter().map(|(a, t)| (*a, *t)).collect();
            if &got != want {
                o.fail(
                    "C13/session-heads-received",
                    format!("the {side} reports heads {:?} for the entries it received, the transcript says {:?}", brief_heads(&got), brief_heads(want)),
                );
                return Ok(());
            }
            if !want.is_empty() {
                o.nontrivial = true;
            }
        }
        // the report as the engine sends it (bounded encoding, far above these sizes), judged by a third replica
        for out in [&t.init_out, &t.resp_out] {
            let bytes = es(out.heads_received.encode(Some(4096)))?;
            let report = es(AuthorHeads::decode(&bytes))?;
            let ours = mc.heads();
            let want = report.iter().filter(|(a, t)| ours.get(&a.to_bytes()).map(|mine| **t > *mine).unwrap_or(true)).count();
            let got = es(sc.store.has_news_for_us(ns, &report))?.map(|n| n.get() as usize).unwrap_or(0);
            if got != want {
                o.fail("C13/has-news-for-us", format!("a third replica with heads {:?} counts {got} authors of the session report {:?} as news, the definition says {want}", ours.iter().map(|(a, t)| (hex::encode(&a[..2]), *t)).collect::<Vec<_>>(), brief_heads(&report.iter().map(|(a, t)| (*a, *t)).collect())));
                return Ok(());
            }
        }
        sa.cleanup();
        sb.cleanup();
        sc.cleanup();
        Ok(())
    })();
    verif::set_clock(None);
    if let Err(e) = r {
        if e.starts_with("populate:") {
            o.class("skipped/ingress-disagrees-with-model");
        } else {
            o.fail("C13/harness-error", e);
        }
    }
    o
}

fn brief_heads(m: &BTreeMap<AuthorId, u64>) -> Vec<(String, u64)> {
    m.iter().map(|(a, t)| (hex::encode(&a.as_bytes()[..2]), *t)).collect()
}

/// Independent size of the heads encoding: list-length prefix + per head 32 id bytes + the timestamp varint.
fn encoded_size(heads: &[(AuthorId, u64)]) -> usize {
    varint_len(heads.len() as u64) + heads.iter().map(|(_, t)| 32 + varint_len(*t)).sum::<usize>()
}

#[derive(Deserialize)]
#[allow(dead_code)]
enum MOp {
    Put(SignedEntry),
    ContentReady(iroh_blobs::Hash),
    SyncReport(MReport),
}
#[derive(Deserialize)]
struct MReport {
    namespace: iroh_docs::NamespaceId,
    heads: Vec<u8>,
}

/// The live engine's side of the property (engine/live.rs): `on_sync_report` and the report sent by `on_sync_finished`.
fn check_live(ctx: &mut Ctx, c: &LiveCase) -> Outcome {
    use crate::props::c11::{fixture, Fixture};
    use iroh_docs::{actor::OpenOpts, engine::SyncReason, net::SyncFinished, sync::SyncOutcome};
    let mut o = Outcome::default();
    o.class("live-engine");
    let r: R<()> = (|| {
        fixture(ctx)?;
        let mut fx = ctx.fixtures.remove("c11").ok_or("fixture")?;
        let res: R<()> = {
            let f: &mut Fixture = fx.downcast_mut::<Fixture>().ok_or("fixture type")?;
            ctx.rt.block_on(async {
                f.counter += 1;
                let mut seed = [0xC3u8; 32];
                seed[..8].copy_from_slice(&f.counter.to_le_bytes());
                seed[8..12].copy_from_slice(&std::process::id().to_le_bytes());
                let nssec = iroh_docs::NamespaceSecret::from_bytes(&seed);
                let ns = nssec.id();
                let peer = f.ids[1];
                let a = &mut f.actors[0];
                let sync = a.verif_sync_handle();
                verif::set_clock(Some(T0 + 3));
                es(sync.import_namespace(nssec.clone().into()).await)?;
                // contents first (no subscriber yet: the engine's event queue is not served by this harness)
                es(sync.open(ns, OpenOpts::default().sync()).await)?;
                let mut model = Model::default();
                for (i, (au, t, ct)) in c.entries.iter().enumerate() {
                    let e = sign(&nssec, &ESpec { a: *au, k: vec![b'k', i as u8], t: T0 + *t as u64, c: *ct });
                    if model.apply(&e).is_some() {
                        es(sync.insert_remote(ns, e, [3u8; 32], ContentStatus::Missing).await)?;
                    }
                }
                let _ = es(sync.close(ns).await)?;
                if a.verif_start_sync(ns).await.is_none() {
                    return Err("start_sync failed".into());
                }
                if c.left {
                    a.verif_leave(ns).await;
                    o.class("live-engine/report-for-a-left-document");
                }
                let _ = verif::take_broadcasts();
                // (1) an incoming report
                let mut rep = AuthorHeads::default();
                for (slot, t) in &c.report {
                    rep.insert(slot_author(*slot as u16), news_ts(*t));
                }
                let bytes = if c.garbage { vec![0xFF, 0xFF, 0xFF, 0xFF, 0x7F, 1, 2, 3] } else { es(rep.encode(None))? };
                let ours = model.heads();
                let news = rep.iter().filter(|(au, t)| ours.get(&au.to_bytes()).map(|mine| **t > *mine).unwrap_or(true)).count();
                let want_dial = news > 0 && !c.left && !c.garbage;
                let dialled = a.verif_sync_report(peer, ns, bytes).await;
                if dialled != want_dial {
                    o.fail(
                        "C13/report-vs-dial",
                        format!(
                            "the node holds heads {:?} and received the report {:?} (left = {}, undecodable = {}): {} authors are news, so it {} dial the reporting peer, but it {}",
                            ours.iter().map(|(au, t)| (hex::encode(&au[..2]), *t)).collect::<Vec<_>>(),
                            brief_heads(&rep.iter().map(|(au, t)| (*au, *t)).collect()),
                            c.left,
                            c.garbage,
                            news,
                            if want_dial { "must" } else { "must not" },
                            if dialled { "did" } else { "did not" }
                        ),
                    );
                }
                if want_dial {
                    o.class("live-engine/report-with-news");
                } else if !c.left && !c.garbage {
                    o.class("live-engine/report-without-news");
                }
                o.nontrivial = !c.report.is_empty();
                // (2) a session finishes: what is announced to the neighbours
                if !c.left && !o.failed() {
                    if !dialled && !a.verif_sync_with_peer(ns, peer, SyncReason::DirectJoin) {
                        return Err("the probe dial was refused".into());
                    }
                    let mut recv = AuthorHeads::default();
                    let mut rmodel: BTreeMap<AuthorId, u64> = BTreeMap::new();
                    for (slot, t) in &c.recv {
                        recv.insert(slot_author(*slot), *t);
                        let h = rmodel.entry(slot_author(*slot)).or_insert(0);
                        *h = (*h).max(*t);
                    }
                    let outcome = SyncOutcome { heads_received: recv, num_recv: c.num_recv as usize, num_sent: 0 };
                    let reason = if dialled { SyncReason::SyncReport } else { SyncReason::DirectJoin };
                    let _ = verif::take_broadcasts();
                    a.verif_connect_finished(ns, peer, reason, Ok(SyncFinished { namespace: ns, peer, outcome, timings: Default::default() })).await;
                    let limit = a.verif_gossip_max_message_size();
                    let mut reports = vec![];
                    for (bns, msg) in verif::take_broadcasts() {
                        if bns != ns.to_bytes() {
                            continue;
                        }
                        if let Ok(MOp::SyncReport(r)) = postcard::from_bytes::<MOp>(&msg) {
                            reports.push(r);
                        }
                    }
                    if c.num_recv == 0 {
                        if !reports.is_empty() {
                            o.fail("C13/report-without-news-received", "a session that received nothing was announced to the neighbours with a sync report".to_string());
                        }
                    } else if reports.len() != 1 {
                        o.fail("C13/report-after-session", format!("a session that received {} entries led to {} sync reports to the neighbours (expected one)", c.num_recv, reports.len()));
                    } else {
                        let r = &reports[0];
                        let kept = es(AuthorHeads::decode(&r.heads))?;
                        let kept: Vec<(AuthorId, u64)> = kept.iter().map(|(au, t)| (*au, *t)).collect();
                        let mut all: Vec<(AuthorId, u64)> = rmodel.iter().map(|(au, t)| (*au, *t)).collect();
                        all.sort_by(|x, y| y.1.cmp(&x.1));
                        let mut problem = None;
                        if r.namespace != ns {
                            problem = Some("it names another document".to_string());
                        } else if r.heads.len() > limit {
                            problem = Some(format!("its heads take {} bytes, the gossip limit is {limit}", r.heads.len()));
                        } else if kept.iter().any(|h| !all.contains(h)) {
                            problem = Some("it names a head that was not received".to_string());
                        } else {
                            // the k newest (as a multiset of timestamps), k maximal for the limit
                            let k = kept.len();
                            let mut kt: Vec<u64> = kept.iter().map(|h| h.1).collect();
                            kt.sort_by(|x, y| y.cmp(x));
                            let want_t: Vec<u64> = all.iter().take(k).map(|h| h.1).collect();
                            if kt != want_t {
                                problem = Some(format!("it keeps {k} heads but not the {k} newest"));
                            } else if k < all.len() && encoded_size(&all[..k + 1]) <= limit {
                                problem = Some(format!("it keeps {k} of {} heads although {} fit into {limit} bytes", all.len(), k + 1));
                            }
                            if k < all.len() {
                                o.class("live-engine/report-cut-by-the-gossip-limit");
                            }
                        }
                        if let Some(pb) = problem {
                            o.fail("C13/report-after-session", format!("the sync report sent after a session that received {} heads: {pb}", all.len()));
                        }
                    }
                }
                // forget the document again (the fixture is reused)
                let _ = a.verif_leave(ns).await;
                while let Ok(false) = sync.close(ns).await {}
                let _ = sync.drop_replica(ns).await;
                Ok(())
            })
        };
        ctx.fixtures.insert("c11", fx);
        res
    })();
    verif::set_clock(None);
    if let Err(e) = r {
        o.fail("C13/harness-error", e);
    }
    o
}
