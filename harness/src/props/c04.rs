//! C04 A swarm of replicas is eventually consistent despite loss, dups and reordering.

use iroh_docs::{
    actor::{OpenOpts, SyncHandle},
    store::Store,
    sync::InsertError,
    verif, ContentStatus, SignedEntry,
};
use proptest::{collection::vec, prelude::*};
use serde::{Deserialize, Serialize};

use crate::{
    common::*,
    engine::{idx, Ctx, Outcome, Prop, Tier},
    gen::{pools, Pools},
    act,
    netsess::net_session,
    wire::run_session_clocks,
};

pub struct C04;

fn plain_for_live() -> impl Strategy<Value = Case> {
    pools(5).prop_map(|pools| Case { n: 2, files: vec![], offsets: vec![], pools, steps: vec![], path: vec![], extra_pairs: vec![], via_actors: false, coarse_clock: false, live: None })
}

pub fn live_case() -> impl Strategy<Value = crate::livenet::LiveCase> {
    use crate::livenet::{LStep, LiveCase};
    let r = || 0u8..4;
    let step = prop_oneof![
        8 => (r(), any::<u16>(), any::<u16>(), 0u8..3).prop_map(|(r, a, k, c)| LStep::Write { r, a, k, c }),
        3 => (r(), any::<u16>(), any::<u16>()).prop_map(|(r, a, k)| LStep::Delete { r, a, k }),
        1 => r().prop_map(|r| LStep::Leave { r }),
        1 => (r(), 0u8..16).prop_map(|(r, peers)| LStep::Join { r, peers }),
        1 => r().prop_map(|r| LStep::Restart { r }),
        2 => (0u8..30).prop_map(|ms| LStep::Wait { ms }),
    ];
    let offsets = prop_oneof![2 => vec(-290i16..=290, 4), 1 => vec(prop::sample::select(vec![-1i16, 0, 0, 0, 1]), 4)];
    let policy = prop::option::weighted(0.5, (any::<bool>(), vec((any::<bool>(), any::<u16>(), prop_oneof![3 => Just(0u8), 1 => 1u8..3]), 0..=3)));
    (2u8..=4, vec(prop::bool::weighted(0.3), 4), vec(prop::bool::weighted(0.15), 4), offsets, pools(5), vec(step, 1..=14), vec(any::<u8>(), 4), vec(any::<u16>(), 4), vec(policy, 4))
        .prop_map(|(n, files, read_only, offsets, pools, steps, introducer, path, policies)| LiveCase { n, files, read_only, offsets, pools, steps, introducer, path, policies })
}

#[derive(Serialize, Deserialize, Clone, Debug)]
pub enum Step {
    Write { r: u8, a: u16, k: u16, c: u8 },
    Delete { r: u8, a: u16, k: u16 },
    /// deliver the e-th entry written so far to replica r through the remote-insert path
    Deliver { r: u8, e: u16 },
    /// reconciliation session i -> j cut after m messages (255 = run to completion)
    Session { i: u8, j: u8, m: u8 },
    Restart { r: u8 },
}

#[derive(Serialize, Deserialize, Clone, Debug)]
pub struct Case {
    pub n: u8,
    pub files: Vec<bool>,
    /// clock offsets in seconds (within +-290 s)
    pub offsets: Vec<i16>,
    pub pools: Pools,
    pub steps: Vec<Step>,
    /// order of the replicas along the spanning path of the closing phase, as sort keys
    pub path: Vec<u16>,
    pub extra_pairs: Vec<(u8, u8)>,
    /// every replica is a store actor; writes, deliveries and sessions go through `SyncHandle`, sessions through the real
    /// initiator / acceptor over in-memory streams cut by a proxy
    #[serde(default)]
    pub via_actors: bool,
    /// the local clocks tick only every third step, so that consecutive operations - on one replica or, with equal
    /// offsets, on several - carry the same timestamp (ties are then decided by the content hash)
    #[serde(default)]
    pub coarse_clock: bool,
    /// the "live swarm" family: real nodes (endpoint, gossip, blob store, `Docs` engine behind a router) on the loopback
    /// network, driven through the client API; everything else in the case is ignored when this is set
    #[serde(default)]
    pub live: Option<crate::livenet::LiveCase>,
}

impl Prop for C04 {
    type Case = Case;
    const ID: &'static str = "C04";

    fn rule() -> String {
        "2..=5 replicas (memory or file) with clocks skewed by up to +-290 s go through histories of <= 40 (thorough 150) steps: local \
         writes and prefix deletions, delivery of any previously written entry to any replica through the remote-insert path (any \
         number of times, in any order, or never), reconciliation sessions cut after a generated number of messages, restarts of \
         file-backed replicas; then complete sessions are swept along a generated connected pair set until a sweep transfers \
         nothing. Oracle: at every step every stored entry is byte-identical to a locally written one; at the end all replicas hold \
         the same entries = merge of all accepted local writes, within n+2 sweeps. About 1.5 % of the cases are live swarms of 2..=4 real \
         nodes on the loopback network driven through the client API (see livenet.rs: stable-sweep convergence, client events, \
         read-only nodes, restarts, download policies vs. fetched content). non-trivial = >= 3 replicas, a deletion \
         interleaved with a late older write under its prefix, >= 1 cut session and >= 1 lost or duplicated delivery (live swarm: a judged stable sweep, >= 2 writing nodes, and a key \
         written by the same author at two nodes or a deletion); distinct by serialised case"
            .into()
    }

    fn cases(tier: Tier) -> u64 {
        tier.pick(24_000, 300_000)
    }

    fn strategy(tier: Tier) -> BoxedStrategy<Case> {
        let max = tier.pick(40, 150);
        let r = || 0u8..5;
        let step = prop_oneof![
            6 => (r(), any::<u16>(), any::<u16>(), 1u8..4).prop_map(|(r, a, k, c)| Step::Write { r, a, k, c }),
            3 => (r(), any::<u16>(), any::<u16>()).prop_map(|(r, a, k)| Step::Delete { r, a, k }),
            6 => (r(), any::<u16>()).prop_map(|(r, e)| Step::Deliver { r, e }),
            3 => (r(), r(), prop_oneof![3 => 0u8..8, 1 => Just(255u8)]).prop_map(|(i, j, m)| Step::Session { i, j, m }),
            1 => r().prop_map(|r| Step::Restart { r }),
        ];
        let offsets = prop_oneof![2 => vec(-290i16..=290, 5), 1 => vec(prop::sample::select(vec![-1i16, 0, 0, 0, 1]), 5)];
        let plain_cases = (2u8..=5, vec(prop::bool::weighted(0.25), 5), offsets, pools(6), vec(step, 1..=max), vec(any::<u16>(), 5), vec((r(), r()), 0..=3), (prop::bool::weighted(0.2), prop::bool::weighted(0.4)))
            .prop_map(|(n, files, offsets, pools, mut steps, path, extra_pairs, (via_actors, coarse_clock))| {
                if via_actors {
                    // an actor round trip per replica per step: keep these histories shorter
                    steps.truncate(40);
                }
                Case { n, files, offsets, pools, steps, path, extra_pairs, via_actors, coarse_clock, live: None }
            })
            .boxed();
        let plain = plain_cases;
        // about 1.5 % of the cases are live swarms (a case takes about a second instead of a millisecond)
        let live = (plain_for_live(), live_case()).prop_map(|(mut c, l)| {
            c.steps.clear();
            c.live = Some(l);
            c
        });
        // DV_LIVE_ONLY=1: only the live family (debugging, focused runs)
        if std::env::var("DV_LIVE_ONLY").is_ok() {
            return live.boxed();
        }
        prop_oneof![985 => plain, 15 => live].boxed()
    }

    fn check(ctx: &mut Ctx, c: &Case) -> Outcome {
        let mut attempts = 0;
        loop {
            attempts += 1;
            let mut o = Outcome::default();
            if let Some(l) = &c.live {
                o.class("live-swarm");
                match crate::livenet::run_live(ctx, l, &mut o, "C04") {
                    Ok(()) => {}
                    // the harness could not get an answer from a node in time: not judged, never a violation
                    Err(e) if e.starts_with("LIVE-TIMEOUT") => {
                        o = Outcome::default();
                        o.class("live-swarm");
                        o.class("live/harness-timeout(not-judged)");
                    }
                    Err(e) => o.fail("C04/harness-error", e),
                }
                return o;
            }
            let r = if c.via_actors { run_actors(ctx, c, &mut o) } else { run(ctx, c, &mut o) };
            verif::set_clock(None);
            match r {
                // a session that does not finish is C10's business; here it only counts when it reproduces three times
                Err(e) if e == "WATCHDOG" && attempts < 3 => continue,
                Err(e) if e == "WATCHDOG" => o.fail("C04/session-hangs", "a session between two store actors did not finish within 20 s in three consecutive runs of this case"),
                Err(e) => o.fail("C04/harness-error", e),
                Ok(()) => {}
            }
            return o;
        }
    }

    fn assumptions() -> Vec<String> {
        vec![
            "'eventually' is turned into a safety check at quiescence of the closing sweeps; liveness beyond that is out of reach".into(),
            "clock skews stay within +-290 s so that no honest entry crosses the 10-minute future bound".into(),
            "broadcast is modelled as delivery of individual entries through insert_remote_entry (what the gossip handler does with a Put); in the live family it is the real gossip".into(),
            "live family: scheduled by the real network, not a pure function of the seed; convergence is judged only on a stable closing sweep, a case without one is counted (live/closing-not-reached) and not judged".into(),
        ]
    }
}

fn run(ctx: &mut Ctx, c: &Case, o: &mut Outcome) -> R<()> {
    let n = c.n.clamp(2, 5) as usize;
    let keys = c.pools.keys();
    let authors = c.pools.authors();
    let nssec = namespace(c.pools.ns).clone();
    let ns = nssec.id();
    let mut stores: Vec<Option<AnyStore>> = vec![];
    for i in 0..n {
        let mut st = AnyStore::new(ctx, c.files.get(i).copied().unwrap_or(false))?;
        es(st.store.import_namespace(nssec.clone().into()))?;
        stores.push(Some(st));
    }
    let tick = if c.coarse_clock { 3 } else { 1 };
    let clock = |r: usize, step: usize| -> u64 { (T0 as i64 + 1_000_000 * c.offsets.get(r).copied().unwrap_or(0) as i64 + 10 + (step / tick) as i64) as u64 };
    let mut written: Vec<SignedEntry> = vec![];
    let mut delivered_count: Vec<Vec<u32>> = vec![];
    let mut deletion_then_older_under_prefix = false;
    let mut cut_session = false;
    for (si, s) in c.steps.iter().enumerate() {
        match s {
            Step::Write { r, a, k, .. } | Step::Delete { r, a, k } => {
                let ri = *r as usize % n;
                let cc = if let Step::Write { c, .. } = s { *c } else { 0 };
                let now = clock(ri, si);
                verif::set_clock(Some(now));
                let au = authors[idx(*a, authors.len())];
                let key = keys[idx(*k, keys.len())].clone();
                let e = sign(&nssec, &ESpec { a: au, k: key.clone(), t: now, c: cc });
                if written.iter().any(|w| w.author() == e.author() && w.key() == e.key() && w.timestamp() == now && w.content_hash() != e.content_hash()) {
                    o.class("same-author-key-timestamp-different-content");
                }
                // a write that is older than a deletion marker (written anywhere) prefixing its key
                if written.iter().any(|w| w.author() == e.author() && w.content_len() == 0 && key.starts_with(w.key()) && w.timestamp() > now) {
                    deletion_then_older_under_prefix = true;
                }
                let st = stores[ri].as_mut().unwrap();
                let res = ctx.rt.block_on(async {
                    let mut rep = es(st.store.open_replica(&ns))?;
                    let (hash, len) = content(cc);
                    Ok::<_, String>(if cc == 0 { rep.delete_prefix(&key, author(au)).await } else { rep.insert(&key, author(au), hash, len).await })
                })?;
                st.store.close_replica(ns);
                match res {
                    Ok(_) => {
                        written.push(e);
                        delivered_count.push(vec![0; n]);
                    }
                    Err(InsertError::NewerEntryExists) => {}
                    Err(e) => return Err(format!("local write failed: {e:?}")),
                }
            }
            Step::Deliver { r, e } => {
                if written.is_empty() {
                    continue;
                }
                let ri = *r as usize % n;
                let ei = idx(*e, written.len());
                verif::set_clock(Some(clock(ri, si)));
                let st = stores[ri].as_mut().unwrap();
                let entry = written[ei].clone();
                let res = ctx.rt.block_on(async {
                    let mut rep = es(st.store.open_replica(&ns))?;
                    Ok::<_, String>(rep.insert_remote_entry(entry, [ri as u8; 32], ContentStatus::Missing).await)
                })?;
                st.store.close_replica(ns);
                match res {
                    Ok(_) | Err(InsertError::NewerEntryExists) => {}
                    Err(e) => {
                        o.fail("C04/honest-entry-rejected", format!("step {si}: delivering {} to replica {ri}: {e:?}", describe(&written[ei])));
                        break;
                    }
                }
                delivered_count[ei][ri] += 1;
            }
            Step::Session { i, j, m } => {
                let (a, b) = (*i as usize % n, *j as usize % n);
                if a == b {
                    continue;
                }
                let (ca, cb) = (clock(a, si), clock(b, si));
                let (sa, sb) = two(&mut stores, a, b);
                let limit = if *m == 255 { 10_000 } else { *m as usize };
                let t = run_session_clocks(&ctx.rt, &mut sa.store, &mut sb.store, ns, limit, Some((ca, cb)))?;
                if !t.completed {
                    cut_session = true;
                    o.class("session-cut");
                }
            }
            Step::Restart { r } => {
                let ri = *r as usize % n;
                let st = stores[ri].take().unwrap();
                stores[ri] = Some(st.reopen()?);
                o.class("restart");
            }
        }
        // no replica ever holds an entry that nobody wrote
        for (ri, st) in stores.iter_mut().enumerate() {
            let d = dump(&mut st.as_mut().unwrap().store, ns)?;
            if let Some(bad) = d.iter().find(|e| !written.contains(e)) {
                o.fail("C04/entry-nobody-wrote", format!("step {si} {:?}: replica {ri} holds {} which no replica wrote", s, describe(bad)));
                break;
            }
        }
        if o.failed() {
            break;
        }
    }
    if !o.failed() {
        // closing phase: complete sessions along a connected pair set until a sweep transfers nothing
        let mut order: Vec<usize> = (0..n).collect();
        order.sort_by_key(|i| (c.path.get(*i).copied().unwrap_or(0), *i));
        let mut pairs: Vec<(usize, usize)> = order.windows(2).map(|w| (w[0], w[1])).collect();
        for (a, b) in &c.extra_pairs {
            let (a, b) = (*a as usize % n, *b as usize % n);
            if a != b {
                pairs.push((a, b));
            }
        }
        // every replica keeps its own skewed clock: entries from a fast clock are up to 580 s ahead of a slow one,
        // inside the 10-minute tolerance, and must travel by reconciliation too
        let end = c.steps.len() + 1;
        let mut sweeps = 0;
        loop {
            sweeps += 1;
            let mut moved = 0usize;
            for (a, b) in &pairs {
                let (sa, sb) = two(&mut stores, *a, *b);
                let t = run_session_clocks(&ctx.rt, &mut sa.store, &mut sb.store, ns, 10_000, Some((clock(*a, end), clock(*b, end))))?;
                if !t.completed {
                    o.fail("C04/closing-session-does-not-finish", format!("pair ({a},{b})"));
                    break;
                }
                moved += t.init_out.num_recv + t.resp_out.num_recv;
            }
            if o.failed() || moved == 0 {
                break;
            }
            if sweeps > n + 2 {
                o.fail("C04/no-quiescence", format!("after {sweeps} sweeps over {:?} entries are still moving ({moved} in the last sweep)", pairs));
                break;
            }
        }
        o.count("closing_sweeps", sweeps as u64);
        if !o.failed() {
            let want = Model::merge(written.iter()).dump();
            for (ri, st) in stores.iter_mut().enumerate() {
                let d = dump(&mut st.as_mut().unwrap().store, ns)?;
                if d != want {
                    o.fail(
                        "C04/not-converged",
                        format!("after the closing sweeps over {:?} replica {ri} holds {} but the merge of all local writes is {}", pairs, describe_all(&d), describe_all(&want)),
                    );
                    break;
                }
                if let Err(e) = self_consistent(&mut st.as_mut().unwrap().store, ns) {
                    o.fail("C04/consistency", format!("replica {ri}: {e}"));
                    break;
                }
            }
        }
    }
    let lost_or_dup = delivered_count.iter().any(|per| per.iter().any(|x| *x >= 2) || per.iter().all(|x| *x == 0));
    if n >= 3 && deletion_then_older_under_prefix && cut_session && lost_or_dup {
        o.nontrivial = true;
    }
    if deletion_then_older_under_prefix {
        o.class("deletion-then-late-older-write-under-prefix");
    }
    o.class(match n {
        2 => "replicas/2",
        3 => "replicas/3",
        4 => "replicas/4",
        _ => "replicas/5",
    });
    for st in stores.into_iter().flatten() {
        st.cleanup();
    }
    Ok(())
}

/// The same histories with every replica behind a store actor.
fn run_actors(ctx: &mut Ctx, c: &Case, o: &mut Outcome) -> R<()> {
    o.class("via-actors");
    let n = c.n.clamp(2, 5) as usize;
    let keys = c.pools.keys();
    let authors = c.pools.authors();
    let nssec = namespace(c.pools.ns).clone();
    let ns = nssec.id();
    let mut paths: Vec<Option<std::path::PathBuf>> = vec![];
    for i in 0..n {
        paths.push(if c.files.get(i).copied().unwrap_or(false) { Some(ctx.fresh_path("swarm")) } else { None });
    }
    let tick = if c.coarse_clock { 3 } else { 1 };
    let clock = |r: usize, step: usize| -> u64 { (T0 as i64 + 1_000_000 * c.offsets.get(r).copied().unwrap_or(0) as i64 + 10 + (step / tick) as i64) as u64 };
    let authors2 = authors.clone();
    let nssec2 = nssec.clone();
    let start = move |store: Store| {
        let authors = authors2.clone();
        let nssec = nssec2.clone();
        async move {
            let h = act::spawn(store);
            es(h.import_namespace(nssec.clone().into()).await)?;
            for a in &authors {
                es(h.import_author(author(*a).clone()).await)?;
            }
            es(h.open(nssec.id(), OpenOpts::default().sync()).await)?;
            Ok::<SyncHandle, String>(h)
        }
    };
    let res: R<()> = ctx.rt.block_on(async {
        let mut hs: Vec<SyncHandle> = vec![];
        for p in &paths {
            let store = match p {
                Some(p) => es(Store::persistent(p))?,
                None => Store::memory(),
            };
            hs.push(start(store).await?);
        }
        let mut written: Vec<SignedEntry> = vec![];
        let mut delivered_count: Vec<Vec<u32>> = vec![];
        let mut deletion_then_older_under_prefix = false;
        let mut cut_session = false;
        'steps: for (si, s) in c.steps.iter().enumerate() {
            match s {
                Step::Write { r, a, k, .. } | Step::Delete { r, a, k } => {
                    let ri = *r as usize % n;
                    let cc = if let Step::Write { c, .. } = s { *c } else { 0 };
                    let now = clock(ri, si);
                    verif::set_clock(Some(now));
                    let au = authors[idx(*a, authors.len())];
                    let key = keys[idx(*k, keys.len())].clone();
                    let e = sign(&nssec, &ESpec { a: au, k: key.clone(), t: now, c: cc });
                    if written.iter().any(|w| w.author() == e.author() && w.key() == e.key() && w.timestamp() == now && w.content_hash() != e.content_hash()) {
                        o.class("same-author-key-timestamp-different-content");
                    }
                    if written.iter().any(|w| w.author() == e.author() && w.content_len() == 0 && key.starts_with(w.key()) && w.timestamp() > now) {
                        deletion_then_older_under_prefix = true;
                    }
                    let (hash, len) = content(cc);
                    let res = if cc == 0 {
                        hs[ri].delete_prefix(ns, author(au).id(), key.clone().into()).await.map(|_| ())
                    } else {
                        hs[ri].insert_local(ns, author(au).id(), key.clone().into(), hash, len).await
                    };
                    match res {
                        Ok(()) => {
                            written.push(e);
                            delivered_count.push(vec![0; n]);
                        }
                        Err(err) => {
                            let newer = matches!(err.downcast_ref::<InsertError>(), Some(InsertError::NewerEntryExists)) || format!("{err:#}").contains("newer entry");
                            if !newer {
                                return Err(format!("local write through the actor failed: {err:#}"));
                            }
                        }
                    }
                }
                Step::Deliver { r, e } => {
                    if written.is_empty() {
                        continue;
                    }
                    let ri = *r as usize % n;
                    let ei = idx(*e, written.len());
                    verif::set_clock(Some(clock(ri, si)));
                    if let Err(err) = hs[ri].insert_remote(ns, written[ei].clone(), [ri as u8; 32], ContentStatus::Missing).await {
                        let newer = matches!(err.downcast_ref::<InsertError>(), Some(InsertError::NewerEntryExists)) || format!("{err:#}").contains("newer entry");
                        if !newer {
                            o.fail("C04/honest-entry-rejected", format!("step {si}: delivering {} to replica {ri} through the actor: {err:#}", describe(&written[ei])));
                            break 'steps;
                        }
                    }
                    delivered_count[ei][ri] += 1;
                }
                Step::Session { i, j, m } => {
                    let (a, b) = (*i as usize % n, *j as usize % n);
                    if a == b {
                        continue;
                    }
                    let limit = if *m == 255 { None } else { Some(*m as usize) };
                    let t = net_session(&hs[a], &hs[b], ns, limit, Some((clock(a, si), clock(b, si)))).await?;
                    o.count("sessions_through_the_real_codec", 1);
                    if t.cut {
                        cut_session = true;
                        o.class("session-cut");
                    } else if t.alice.is_err() || t.bob.is_err() {
                        o.fail("C04/uncut-session-failed", format!("step {si}: session {a}->{b} without a cut: initiator {:?}, acceptor {:?}", t.alice.as_ref().map(|_| "ok"), t.bob));
                        break 'steps;
                    }
                }
                Step::Restart { r } => {
                    let ri = *r as usize % n;
                    // stop the actor; it hands the store back; a file-backed store is dropped and opened again from its path
                    let store = es(hs[ri].shutdown().await)?;
                    let store = match &paths[ri] {
                        Some(p) => {
                            drop(store);
                            es(Store::persistent(p))?
                        }
                        None => store,
                    };
                    hs[ri] = start(store).await?;
                    o.class("restart");
                }
            }
            for (ri, h) in hs.iter().enumerate() {
                let d = act::dump(h, ns).await?;
                if let Some(bad) = d.iter().find(|e| !written.contains(e)) {
                    o.fail("C04/entry-nobody-wrote", format!("step {si} {:?}: replica {ri} holds {} which no replica wrote", s, describe(bad)));
                    break 'steps;
                }
            }
        }
        if !o.failed() {
            let mut order: Vec<usize> = (0..n).collect();
            order.sort_by_key(|i| (c.path.get(*i).copied().unwrap_or(0), *i));
            let mut pairs: Vec<(usize, usize)> = order.windows(2).map(|w| (w[0], w[1])).collect();
            for (a, b) in &c.extra_pairs {
                let (a, b) = (*a as usize % n, *b as usize % n);
                if a != b {
                    pairs.push((a, b));
                }
            }
            let end = c.steps.len() + 1;
            let mut sweeps = 0;
            'sweeps: loop {
                sweeps += 1;
                let mut moved = 0usize;
                for (a, b) in &pairs {
                    let t = net_session(&hs[*a], &hs[*b], ns, None, Some((clock(*a, end), clock(*b, end)))).await?;
                    o.count("sessions_through_the_real_codec", 1);
                    match (&t.alice, &t.bob) {
                        (Ok(oa), Ok(())) => {
                            if oa.num_sent != t.bob_out.num_recv || oa.num_recv != t.bob_out.num_sent {
                                o.fail("C04/closing-session-counters", format!("pair ({a},{b}): initiator sent {} recv {}, acceptor sent {} recv {}", oa.num_sent, oa.num_recv, t.bob_out.num_sent, t.bob_out.num_recv));
                                break 'sweeps;
                            }
                            moved += oa.num_recv + t.bob_out.num_recv;
                        }
                        (ra, rb) => {
                            o.fail("C04/closing-session-does-not-finish", format!("pair ({a},{b}): initiator {:?}, acceptor {:?}", ra.as_ref().map(|_| "ok"), rb));
                            break 'sweeps;
                        }
                    }
                }
                if moved == 0 {
                    break;
                }
                if sweeps > n + 2 {
                    o.fail("C04/no-quiescence", format!("after {sweeps} sweeps over {:?} entries are still moving ({moved} in the last sweep)", pairs));
                    break;
                }
            }
            o.count("closing_sweeps", sweeps as u64);
            if !o.failed() {
                let want = Model::merge(written.iter()).dump();
                for (ri, h) in hs.iter().enumerate() {
                    let d = act::dump(h, ns).await?;
                    if d != want {
                        o.fail(
                            "C04/not-converged",
                            format!("(actors) after the closing sweeps over {:?} replica {ri} holds {} but the merge of all local writes is {}", pairs, describe_all(&d), describe_all(&want)),
                        );
                        break;
                    }
                }
            }
        }
        let lost_or_dup = delivered_count.iter().any(|per| per.iter().any(|x| *x >= 2) || per.iter().all(|x| *x == 0));
        if n >= 3 && deletion_then_older_under_prefix && cut_session && lost_or_dup {
            o.nontrivial = true;
        }
        if deletion_then_older_under_prefix {
            o.class("deletion-then-late-older-write-under-prefix");
        }
        // the stores handed back by the actors are self-consistent
        for (ri, h) in hs.iter().enumerate() {
            let mut store = es(h.shutdown().await)?;
            if !o.failed() {
                if let Err(e) = self_consistent(&mut store, ns) {
                    o.fail("C04/consistency", format!("(actors) replica {ri}: {e}"));
                }
            }
        }
        Ok(())
    });
    for p in paths.into_iter().flatten() {
        let _ = std::fs::remove_file(p);
    }
    o.class(match n {
        2 => "replicas/2",
        3 => "replicas/3",
        4 => "replicas/4",
        _ => "replicas/5",
    });
    res
}

fn two(stores: &mut [Option<AnyStore>], a: usize, b: usize) -> (&mut AnyStore, &mut AnyStore) {
    assert!(a != b);
    if a < b {
        let (l, r) = stores.split_at_mut(b);
        (l[a].as_mut().unwrap(), r[0].as_mut().unwrap())
    } else {
        let (l, r) = stores.split_at_mut(a);
        (r[0].as_mut().unwrap(), l[b].as_mut().unwrap())
    }
}
