//! C08 Reconciliation behaves the same on the redb store as on a plain ordered map.

use std::collections::BTreeMap;

use iroh_docs::{
    store::Store,
    verif::{self, Adapter, MapBackend},
    RecordIdentifier, SignedEntry,
};
use proptest::{collection::vec, prelude::*};
use serde::{Deserialize, Serialize};

use crate::{
    common::*,
    engine::{idx, Ctx, Outcome, Prop, Tier},
    gen::{egen, pools, sync_config, to_espec, EGen, Pools},
    wire::{enc, run_session},
};

pub struct C08;

/// The reference ordered map: key = namespace ‖ author ‖ key bytes, textbook definitions only.
#[derive(Default, Clone, Debug)]
pub struct Bt(pub BTreeMap<Vec<u8>, SignedEntry>);

impl MapBackend for Bt {
    fn first_id(&mut self) -> Option<RecordIdentifier> {
        self.0.values().next().map(|e| e.id().clone())
    }
    fn range(&mut self, x: &RecordIdentifier, y: &RecordIdentifier) -> Vec<SignedEntry> {
        let (x, y) = (x.as_ref(), y.as_ref());
        if x == y {
            self.0.values().cloned().collect()
        } else if x < y {
            self.0.iter().filter(|(k, _)| x <= &k[..] && &k[..] < y).map(|(_, e)| e.clone()).collect()
        } else {
            // wrap-around: everything below y, then everything from x on
            let mut v: Vec<SignedEntry> = self.0.iter().filter(|(k, _)| &k[..] < y).map(|(_, e)| e.clone()).collect();
            v.extend(self.0.iter().filter(|(k, _)| &k[..] >= x).map(|(_, e)| e.clone()));
            v
        }
    }
    fn put_row(&mut self, e: SignedEntry) {
        self.0.insert(e.id().as_ref().to_vec(), e);
    }
    fn prefixes_of(&mut self, id: &RecordIdentifier) -> Vec<SignedEntry> {
        let full = id.as_ref();
        self.0
            .iter()
            .filter(|(k, _)| k[..64] == full[..64] && full[64..].starts_with(&k[64..]))
            .map(|(_, e)| e.clone())
            .collect()
    }
    fn remove_prefixed(&mut self, id: &RecordIdentifier, pred: &dyn Fn(u64, &[u8; 32]) -> bool) -> usize {
        let full = id.as_ref().to_vec();
        let before = self.0.len();
        self.0.retain(|k, e| !(k.starts_with(&full) && pred(e.timestamp(), e.content_hash().as_bytes())));
        before - self.0.len()
    }
}

#[derive(Serialize, Deserialize, Clone, Debug)]
pub struct IdGen {
    /// author slot; >= pool size means an author without entries
    pub a: u8,
    pub k: u16,
    /// 0 as is, 1 parent, 2 ‖FF, 3 empty, 4 ‖00, 5 successor
    pub t: u8,
    pub foreign_ns: bool,
}

#[derive(Serialize, Deserialize, Clone, Debug)]
pub enum Call {
    GetRange(IdGen, IdGen),
    GetFirst,
    Fingerprint(IdGen, IdGen),
    PrefixesOf(IdGen),
    /// remove entries prefixed by the id whose timestamp is <= T0 + threshold
    RemovePrefix(IdGen, u8),
    Put(EGen),
    /// remove the document from the redb store and import it again; the ordered map is cleared
    RemoveAndRecreate,
    /// flush; file stores are dropped and opened again
    FlushOrReopen,
}

#[derive(Serialize, Deserialize, Clone, Debug)]
pub enum Case {
    Session {
        pools: Pools,
        a: Vec<EGen>,
        b: Vec<EGen>,
        config: Option<(usize, usize)>,
        /// entries of OTHER documents held by the redb stores (side, namespace slot, entry); the ordered maps hold only the synced document
        #[serde(default)]
        others: Vec<(bool, u8, EGen)>,
    },
    Primitives {
        file: bool,
        pools: Pools,
        entries: Vec<EGen>,
        calls: Vec<Call>,
        /// entries of other documents in the same redb store (namespace slot, entry)
        #[serde(default)]
        others: Vec<(u8, EGen)>,
    },
}

fn idgen() -> impl Strategy<Value = IdGen> {
    (0u8..5, any::<u16>(), 0u8..6, prop::bool::weighted(0.08)).prop_map(|(a, k, t, foreign_ns)| IdGen { a, k, t, foreign_ns })
}

fn call() -> impl Strategy<Value = Call> {
    prop_oneof![
        5 => (idgen(), idgen()).prop_map(|(x, y)| Call::GetRange(x, y)),
        1 => Just(Call::GetFirst),
        3 => (idgen(), idgen()).prop_map(|(x, y)| Call::Fingerprint(x, y)),
        3 => idgen().prop_map(Call::PrefixesOf),
        2 => (idgen(), 0u8..8).prop_map(|(x, t)| Call::RemovePrefix(x, t)),
        2 => egen().prop_map(Call::Put),
        1 => Just(Call::RemoveAndRecreate),
        1 => Just(Call::FlushOrReopen),
    ]
}

impl Prop for C08 {
    type Case = Case;
    const ID: &'static str = "C08";

    fn rule() -> String {
        "(sessions) the same two entry lists are loaded into three pairs of backends - in-memory redb replicas, file-backed redb \
         replicas, and a BTreeMap written in the harness that is driven by the crate's own put / process_message through the \
         adapter hook - under the default or generated reconciliation parameters; the postcard encodings of all messages of the \
         three transcripts must be byte-equal and the final sets equal; (primitives) a generated state is loaded into the redb \
         store and the BTreeMap, then get_range (x<y, x>y wrap-around, x=y; ids drawn from stored ids, their neighbours, absent \
         authors, a foreign namespace), get_first, fingerprints, prefixes_of, remove_prefix_filtered and put are executed on \
         both: equal results in equal order and equal post-states; non-trivial = a transcript of >= 3 messages, or a primitive \
         call on a wrap-around range, a prefix lookup that finds a parent, or a prefix ending in 0xFF; distinct by serialised case"
            .into()
    }

    fn cases(tier: Tier) -> u64 {
        tier.pick(80_000, 2_000_000)
    }

    fn strategy(tier: Tier) -> BoxedStrategy<Case> {
        let max = tier.pick(12, 40);
        let others_s = prop_oneof![1 => Just(vec![]), 1 => vec((any::<bool>(), 0u8..6, egen()), 1..=6)];
        let others_p = prop_oneof![1 => Just(vec![]), 1 => vec((0u8..6, egen()), 1..=8)];
        let session = (pools(8), vec(egen(), 0..=max), vec(egen(), 0..=max), sync_config(), others_s).prop_map(|(pools, a, b, config, others)| Case::Session { pools, a, b, config, others });
        let prims = (prop::bool::weighted(0.15), pools(6), vec(egen(), 0..=14), vec(call(), 1..=24), others_p)
            .prop_map(|(file, pools, entries, calls, others)| Case::Primitives { file, pools, entries, calls, others });
        prop_oneof![1 => session, 2 => prims].boxed()
    }

    fn check(ctx: &mut Ctx, case: &Case) -> Outcome {
        let mut o = Outcome::default();
        verif::set_clock(Some(T0 + 3));
        let r = match case {
            Case::Session { pools, a, b, config, others } => session(ctx, pools, a, b, *config, others, &mut o),
            Case::Primitives { file, pools, entries, calls, others } => primitives(ctx, *file, pools, entries, calls, others, &mut o),
        };
        verif::set_sync_config(None);
        verif::set_clock(None);
        if let Err(e) = r {
            o.fail("C08/harness-error", e);
        }
        o
    }

    fn assumptions() -> Vec<String> {
        vec![
            "the ordered-map backend is driven by the crate's own generic reconciliation routine through the adapter hook (validation = accept, content status = Missing, exactly what a Replica without a status callback does)".into(),
            "half of the cases put other documents (ids below and above) into the same redb store; ranges that NAME another document's ids are compared on single-document stores only (a peer naming foreign ids is not covered by the property)".into(),
        ]
    }
}

fn session(ctx: &mut Ctx, pools: &Pools, a: &[EGen], b: &[EGen], config: Option<(usize, usize)>, others: &[(bool, u8, EGen)], o: &mut Outcome) -> R<()> {
    o.class("sessions");
    let keys = pools.keys();
    let authors = pools.authors();
    let nssec = namespace(pools.ns).clone();
    let ns = nssec.id();
    let ea: Vec<SignedEntry> = a.iter().map(|e| sign(&nssec, &to_espec(e, &authors, &keys))).collect();
    let eb: Vec<SignedEntry> = b.iter().map(|e| sign(&nssec, &to_espec(e, &authors, &keys))).collect();
    verif::set_sync_config(config);
    o.class(if config.is_none() { "config/default" } else { "config/other" });
    // ordered-map pair
    let mut ba = Adapter(Bt::default());
    let mut bb = Adapter(Bt::default());
    // redb pairs
    let mut stores: Vec<(AnyStore, AnyStore)> = vec![(AnyStore::new(ctx, false)?, AnyStore::new(ctx, false)?), (AnyStore::new(ctx, true)?, AnyStore::new(ctx, true)?)];
    for (side, entries) in [(0usize, &ea), (1usize, &eb)] {
        for (pi, pair) in stores.iter_mut().enumerate() {
            let st = if side == 0 { &mut pair.0 } else { &mut pair.1 };
            es(st.store.import_namespace(nssec.clone().into()))?;
            for e in entries {
                let got = es(verif::store_put(&mut st.store, e.clone()))?;
                if pi == 0 {
                    let want = es(if side == 0 { ba.put(e.clone()) } else { bb.put(e.clone()) })?;
                    if got != want {
                        o.fail("C08/put", format!("put {}: redb {:?}, ordered map {:?}", describe(e), got, want));
                        return Ok(());
                    }
                }
            }
        }
    }
    // unrelated documents in the redb stores (different on each side): must not leak into the session
    let mut n_other = 0;
    for (side_a, slot, e) in others {
        if *slot % N_NAMESPACES as u8 == pools.ns % N_NAMESPACES as u8 {
            continue;
        }
        let other = namespace(*slot);
        let e = sign(other, &to_espec(e, &authors, &keys));
        for pair in stores.iter_mut() {
            let st = if *side_a { &mut pair.0 } else { &mut pair.1 };
            es(st.store.import_namespace(other.clone().into()))?;
            let _ = es(verif::store_put(&mut st.store, e.clone()))?;
        }
        n_other += 1;
    }
    if n_other > 0 {
        o.class("other-documents-in-the-store");
    }
    // transcripts
    let mut transcripts: Vec<Vec<Vec<u8>>> = vec![];
    for pair in stores.iter_mut() {
        let t = run_session(&ctx.rt, &mut pair.0.store, &mut pair.1.store, ns, 400)?;
        if !t.completed {
            o.fail("C08/no-termination", "redb session did not finish within 400 messages".to_string());
            return Ok(());
        }
        transcripts.push(t.msgs);
    }
    let bt_transcript: Vec<Vec<u8>> = ctx.rt.block_on(async {
        let mut msgs = vec![];
        let mut next = Some(es(ba.initial_message())?);
        while let Some(m) = next.take() {
            if msgs.len() > 400 {
                return Err("ordered-map session does not terminate".to_string());
            }
            msgs.push(enc(&m));
            if let Some(r) = es(bb.process_message(m).await)? {
                msgs.push(enc(&r));
                next = es(ba.process_message(r).await)?;
            }
        }
        Ok(msgs)
    })?;
    o.count("transcript_messages_compared", bt_transcript.len() as u64);
    if bt_transcript.len() >= 3 {
        o.nontrivial = true;
        o.class("transcript>=3-messages");
    }
    for (name, t) in [("memory", &transcripts[0]), ("file", &transcripts[1])] {
        if *t != bt_transcript {
            let first = t.iter().zip(bt_transcript.iter()).position(|(x, y)| x != y).unwrap_or(t.len().min(bt_transcript.len()));
            o.fail(
                "C08/transcript",
                format!(
                    "config {:?}: the {name} redb transcript ({} messages) differs from the ordered-map transcript ({} messages) at message {first}; A = {}, B = {}",
                    config,
                    t.len(),
                    bt_transcript.len(),
                    describe_all(&ea),
                    describe_all(&eb)
                ),
            );
            return Ok(());
        }
    }
    let want_a: Vec<SignedEntry> = ba.0 .0.values().cloned().collect();
    let want_b: Vec<SignedEntry> = bb.0 .0.values().cloned().collect();
    for (pi, pair) in stores.iter_mut().enumerate() {
        let da = dump(&mut pair.0.store, ns)?;
        let db = dump(&mut pair.1.store, ns)?;
        if da != want_a || db != want_b {
            o.fail("C08/final-sets", format!("pair {pi}: redb A {} B {}; ordered map A {} B {}", describe_all(&da), describe_all(&db), describe_all(&want_a), describe_all(&want_b)));
            break;
        }
    }
    for (a, b) in stores {
        a.cleanup();
        b.cleanup();
    }
    Ok(())
}

fn resolve_id(g: &IdGen, ns: iroh_docs::NamespaceId, authors: &[u8], keys: &[Vec<u8>], multi: bool) -> RecordIdentifier {
    let a = if (g.a as usize) < authors.len() { author(authors[g.a as usize]).id() } else { author(5 - (g.a % 2)).id() };
    let mut k = keys[idx(g.k, keys.len())].clone();
    match g.t % 6 {
        0 => {}
        1 => {
            k.pop();
        }
        2 => k.push(0xFF),
        3 => k.clear(),
        4 => k.push(0),
        _ => k = lexical_successor(&k),
    }
    // ranges that name another document's ids are only compared on single-document stores
    let nsid = if g.foreign_ns && !multi { namespace(4).id() } else { ns };
    RecordIdentifier::new(nsid, a, k)
}

fn primitives(ctx: &mut Ctx, file: bool, pools: &Pools, entries: &[EGen], calls: &[Call], others: &[(u8, EGen)], o: &mut Outcome) -> R<()> {
    o.class(if file { "primitives/file" } else { "primitives/memory" });
    let keys = pools.keys();
    let authors = pools.authors();
    let nssec = namespace(pools.ns).clone();
    let ns = nssec.id();
    let mut st = AnyStore::new(ctx, file)?;
    es(st.store.import_namespace(nssec.clone().into()))?;
    let mut bt = Adapter(Bt::default());
    // other documents in the same redb store (ids below and above ours); the ordered map holds only this document
    let mut multi = false;
    for (slot, e) in others {
        if *slot % N_NAMESPACES as u8 == pools.ns % N_NAMESPACES as u8 {
            continue;
        }
        let other = namespace(*slot);
        es(st.store.import_namespace(other.clone().into()))?;
        let _ = es(verif::store_put(&mut st.store, sign(other, &to_espec(e, &authors, &keys))))?;
        multi = true;
    }
    if multi {
        o.class("other-documents-in-the-store");
    }
    for e in entries {
        let e = sign(&nssec, &to_espec(e, &authors, &keys));
        let got = es(verif::store_put(&mut st.store, e.clone()))?;
        let want = es(bt.put(e.clone()))?;
        if got != want {
            o.fail("C08/put", format!("put {}: redb {:?}, ordered map {:?}", describe(&e), got, want));
            st.cleanup();
            return Ok(());
        }
    }
    o.count("primitive_calls_compared", calls.len() as u64);
    for (i, c) in calls.iter().enumerate() {
        let state_text = describe_all(&bt.0 .0.values().cloned().collect::<Vec<_>>());
        let state = || state_text.clone();
        match c {
            Call::GetRange(x, y) | Call::Fingerprint(x, y) => {
                let (x, y) = (resolve_id(x, ns, &authors, &keys, multi), resolve_id(y, ns, &authors, &keys, multi));
                if x > y {
                    o.class("range/wrap-around");
                    o.nontrivial = true;
                } else if x == y {
                    o.class("range/all");
                } else {
                    o.class("range/regular");
                }
                let want = bt.0.range(&x, &y);
                if matches!(c, Call::GetRange(..)) {
                    let got = es(verif::store_get_range(&mut st.store, ns, x.clone(), y.clone()))?;
                    let len = es(verif::store_get_range_len(&mut st.store, ns, x.clone(), y.clone()))?;
                    if got != want || len != want.len() {
                        o.fail("C08/get-range", format!("call {i}: range x={} y={} on {}: redb {} (len {len}), ordered map {}", hex::encode(&x.as_ref()[32..]), hex::encode(&y.as_ref()[32..]), state(), describe_all(&got), describe_all(&want)));
                        break;
                    }
                } else {
                    let got = es(verif::store_get_fingerprint(&mut st.store, ns, x.clone(), y.clone()))?;
                    let mut fp = verif::empty_fingerprint();
                    for e in &want {
                        let f = verif::entry_fingerprint(e);
                        for (a, b) in fp.iter_mut().zip(f.iter()) {
                            *a ^= b;
                        }
                    }
                    if got != fp {
                        o.fail("C08/fingerprint", format!("call {i}: fingerprint of x={} y={} on {}", hex::encode(&x.as_ref()[32..]), hex::encode(&y.as_ref()[32..]), state()));
                        break;
                    }
                }
            }
            Call::GetFirst => {
                let got = es(verif::store_get_first(&mut st.store, ns))?;
                let want = bt.0.first_id().unwrap_or_default();
                if got != want {
                    o.fail("C08/get-first", format!("call {i}: redb {:?}, ordered map {:?}", got, want));
                    break;
                }
            }
            Call::PrefixesOf(x) => {
                let id = resolve_id(x, ns, &authors, &keys, multi);
                let got = es(verif::store_prefixes_of(&mut st.store, ns, &id))?;
                let want = bt.0.prefixes_of(&id);
                if want.iter().any(|e| e.key().len() < id.key().len()) {
                    o.class("prefixes-of/has-parent");
                    o.nontrivial = true;
                }
                if got != want {
                    o.fail("C08/prefixes-of", format!("call {i}: prefixes_of({}) on {}: redb {}, ordered map {}", hex::encode(id.key()), state(), describe_all(&got), describe_all(&want)));
                    break;
                }
            }
            Call::RemovePrefix(x, thr) => {
                let id = resolve_id(x, ns, &authors, &keys, multi);
                if id.key().last() == Some(&0xFF) {
                    o.class("remove-prefix/ends-in-ff");
                    o.nontrivial = true;
                }
                let limit = T0 + *thr as u64;
                let pred = move |ts: u64, _h: &[u8; 32]| ts <= limit;
                let before = state();
                let got = es(verif::store_remove_prefix_filtered(&mut st.store, ns, &id, &pred))?;
                let want = bt.0.remove_prefixed(&id, &pred);
                if got != want {
                    o.fail("C08/remove-prefix", format!("call {i}: remove_prefix_filtered({}, ts <= T0+{thr}) on {before}: redb removed {got}, ordered map {want}", hex::encode(id.key())));
                    break;
                }
            }
            Call::Put(e) => {
                let e = sign(&nssec, &to_espec(e, &authors, &keys));
                let got = es(verif::store_put(&mut st.store, e.clone()))?;
                let want = es(bt.put(e.clone()))?;
                if got != want {
                    o.fail("C08/put", format!("call {i}: put {}: redb {:?}, ordered map {:?}", describe(&e), got, want));
                    break;
                }
            }
            Call::RemoveAndRecreate => {
                es(st.store.remove_replica(&ns))?;
                es(st.store.import_namespace(nssec.clone().into()))?;
                bt = Adapter(Bt::default());
                o.class("primitives/document-removed-and-re-created");
            }
            Call::FlushOrReopen => {
                es(st.store.flush())?;
                if file {
                    st = st.reopen()?;
                }
            }
        }
        // post-states
        let got = es(verif::store_get_range(&mut st.store, ns, RecordIdentifier::default(), RecordIdentifier::default()))?;
        let want: Vec<SignedEntry> = bt.0 .0.values().cloned().collect();
        if got != want {
            o.fail("C08/post-state", format!("after call {i} {:?}: redb {}, ordered map {}", c, describe_all(&got), describe_all(&want)));
            break;
        }
    }
    st.cleanup();
    Ok(())
}

#[allow(dead_code)]
fn _store_type(_: &Store) {}
