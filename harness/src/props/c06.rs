//! C06 Flushed data survives; a crash never exposes a half-applied write.

use iroh_docs::{
    store::{DownloadPolicy, FilterKind, Query, Store},
    sync::InsertError,
    verif, Capability, ContentStatus, NamespaceId, SignedEntry,
};
use proptest::{collection::vec, prelude::*};
use serde::{Deserialize, Serialize};

use crate::{
    common::*,
    engine::{Ctx, Outcome, Prop, Tier},
};

pub struct C06;

#[derive(Serialize, Deserialize, Clone, Debug)]
pub enum Op {
    ImportAuthor(u8),
    ImportDoc(u8),
    Local { d: u8, a: u8, k: u8, c: u8 },
    Delete { d: u8, a: u8, k: u8 },
    Remote { d: u8, a: u8, k: u8, t: u8, c: u8 },
    Policy(u8, u8),
    Peer(u8, u8),
    Remove(u8),
    Flush,
    ReadMany(u8),
    ReadHashes,
    ReadList,
    /// drop the store and open the file again (Drop flushes)
    Restart,
    /// `n` remote inserts of fresh keys in a row, nothing in between: one large uncommitted batch
    Bulk { d: u8, n: u16 },
}

#[derive(Serialize, Deserialize, Clone, Debug)]
pub struct Case {
    pub ops: Vec<Op>,
    /// run the history through the store actor (SyncHandle) instead of the Store: crash images after every
    /// acknowledged request, flush through the handle, shutdown at the end
    #[serde(default)]
    pub via_actor: bool,
}

fn key(k: u8) -> Vec<u8> {
    match k % 7 {
        0 => vec![],
        1 => b"a".to_vec(),
        2 => b"ab".to_vec(),
        3 => b"ac".to_vec(),
        4 => b"b".to_vec(),
        5 => vec![b'a', 0xFF],
        _ => b"abc".to_vec(),
    }
}

impl Prop for C06 {
    type Case = Case;
    const ID: &'static str = "C06";
    const LEVEL: &'static str = "fault_enumeration";

    fn rule() -> String {
        "histories of <= 14 (thorough 40) operations on a file store (imports, local and remote inserts, pruning prefix deletions, \
         policy, peers, document removal, flush, the reads that commit as a side effect, restart) are first run on an in-memory \
         witness store to record the observable state after every complete operation; then, for every store access k of the \
         history (counted by the access hook) and for 'no forced commit', the history is re-executed on a file with the \
         transaction-age hook armed at access k, so that the crate's own age test commits between the internal steps of an \
         operation exactly there, and after every operation from the armed one on a crash image (byte copy of the database file \
         without flush) is opened: it must open, show a state S_j the witness passed through with j between the last documented \
         commit and the current operation, and be self-consistent. Crash points x commit placements are enumerated exhaustively \
         per history; histories are sampled. non-trivial = a placement strictly inside an operation that makes several store \
         accesses with an image taken before the next commit; distinct = distinct (history, placement) pairs"
            .into()
    }

    fn cases(tier: Tier) -> u64 {
        tier.pick(6_000, 60_000)
    }

    fn strategy(tier: Tier) -> BoxedStrategy<Case> {
        let max = tier.pick(14, 40);
        let d = || 0u8..2;
        let op = prop_oneof![
            1 => (0u8..3).prop_map(Op::ImportAuthor),
            2 => d().prop_map(Op::ImportDoc),
            6 => (d(), 0u8..2, 0u8..7, 1u8..4).prop_map(|(d, a, k, c)| Op::Local { d, a, k, c }),
            4 => (d(), 0u8..2, 0u8..7).prop_map(|(d, a, k)| Op::Delete { d, a, k }),
            6 => (d(), 0u8..3, 0u8..7, 0u8..8, 0u8..4).prop_map(|(d, a, k, t, c)| Op::Remote { d, a, k, t, c }),
            1 => (d(), 0u8..3).prop_map(|(d, p)| Op::Policy(d, p)),
            1 => (d(), 0u8..4).prop_map(|(d, p)| Op::Peer(d, p)),
            1 => d().prop_map(Op::Remove),
            3 => Just(Op::Flush),
            1 => d().prop_map(Op::ReadMany),
            1 => Just(Op::ReadHashes),
            1 => Just(Op::ReadList),
            1 => Just(Op::Restart),
        ];
        let plain = (vec(op.clone(), 1..=max), prop::bool::weighted(0.25)).prop_map(|(ops, via_actor)| Case { ops, via_actor });
        // a large uncommitted batch: durable base entries, flush, hundreds or thousands of inserts (sizes just below round
        // numbers of operations or of table writes), an odd or even number of single-write settings, then writes that prune
        // the durable base entries - whatever makes a store commit "when the batch is big enough" must not split one of them
        let round = prop::sample::select(vec![256u16, 512, 1000, 1024, 2000, 2048]);
        let bulk = (round, any::<bool>(), 0u16..14, 0u8..4, vec(op, 12..=20)).prop_map(|(t, per_write, r, singles, tail)| {
            let n = if per_write { t / 2 } else { t }.saturating_sub(r);
            let mut ops = vec![Op::ImportAuthor(0), Op::ImportAuthor(1), Op::ImportAuthor(2), Op::ImportDoc(0)];
            for k in 0..7u8 {
                ops.push(Op::Remote { d: 0, a: k % 2, k, t: 0, c: 1 });
            }
            ops.push(Op::Flush);
            ops.push(Op::Bulk { d: 0, n });
            for i in 0..singles {
                ops.push(if i % 2 == 0 { Op::Policy(0, i) } else { Op::Peer(0, i) });
            }
            // the tail: only writes into document 0 (no commits), pruning the durable base entries
            for (i, o) in tail.into_iter().enumerate() {
                ops.push(match o {
                    Op::Local { a, k, c, .. } => Op::Local { d: 0, a, k, c },
                    Op::Delete { a, k, .. } => Op::Delete { d: 0, a, k },
                    Op::Remote { a, k, c, .. } => Op::Remote { d: 0, a: a % 2, k, t: 5, c },
                    _ => Op::Local { d: 0, a: (i % 2) as u8, k: (i % 7) as u8, c: 2 },
                });
            }
            Case { ops, via_actor: false }
        });
        let share = tier.pick(5u32, 8u32);
        prop_oneof![100 - share => plain, share => bulk].boxed()
    }

    fn check(ctx: &mut Ctx, c: &Case) -> Outcome {
        let mut o = Outcome::default();
        let r = if c.via_actor { run_actor(ctx, c, &mut o) } else { run(ctx, c, &mut o) };
        verif::arm_age_at(None);
        verif::set_clock(None);
        if let Err(e) = r {
            o.fail("C06/harness-error", e);
        }
        o
    }

    fn assumptions() -> Vec<String> {
        vec![
            "a crash is a byte copy of the database file taken between two store calls, without flush; torn writes inside a redb commit are redb's business".into(),
            "the age-based commit is triggered through the access hook (the open transaction is made to look 1 s old at access k); the crate's own age test does the commit".into(),
            "documented commit points: flush, get_many, content_hashes, list_namespaces, list_authors, dropping the store".into(),
        ]
    }

    fn worker_budget_s(tier: Tier) -> u64 {
        tier.pick(1500, 10_000)
    }
}

/// The entries of a bulk operation (signed once per worker): fresh keys `z<i>` that no other operation touches.
fn bulk_entries(d: u8) -> &'static Vec<SignedEntry> {
    static B: std::sync::OnceLock<Vec<Vec<SignedEntry>>> = std::sync::OnceLock::new();
    &B.get_or_init(|| {
        (0..2u8)
            .map(|d| (0..2048u16).map(|i| sign(namespace(d), &ESpec { a: 2, k: vec![b'z', (i >> 8) as u8, i as u8], t: T0 + 1, c: 1 })).collect())
            .collect()
    })[d as usize % 2]
}

/// Remove the entries of a bulk operation (keys `z<i>` of author 2) from a dump: (rest, how many, were they exactly the
/// first m of the batch). Heads of the bulk author and the protected hashes are left out of the comparison.
fn strip_bulk(d: &StoreDump) -> (StoreDump, usize, bool) {
    let mut out = d.clone();
    let mut m = 0;
    let mut ok = true;
    let bulk_author = author(2).id();
    for doc in out.docs.values_mut() {
        let is_bulk = |e: &SignedEntry| e.author() == bulk_author && e.key().len() == 3 && e.key()[0] == b'z';
        let mut idx: Vec<usize> = doc.entries.iter().filter(|e| is_bulk(e)).map(|e| ((e.key()[1] as usize) << 8) | e.key()[2] as usize).collect();
        idx.sort();
        if idx.iter().enumerate().any(|(i, k)| i != *k) {
            ok = false;
        }
        if doc.by_key.iter().filter(|e| is_bulk(e)).count() != idx.len() {
            ok = false;
        }
        m += idx.len();
        doc.entries.retain(|e| !is_bulk(e));
        doc.by_key.retain(|e| !is_bulk(e));
        doc.heads.remove(&bulk_author.to_bytes());
    }
    out.content_hashes.clear();
    (out, m, ok)
}

fn docs() -> Vec<NamespaceId> {
    vec![namespace(0).id(), namespace(1).id()]
}

/// Apply one operation. Returns (commits as documented, number of entries this op pruned if it was an insert).
fn apply(rt: &tokio::runtime::Runtime, store: &mut Store, i: usize, op: &Op) -> R<(bool, usize)> {
    let now = T0 + 10 + i as u64;
    verif::set_clock(Some(now));
    let ids = docs();
    let mut commits = false;
    let mut pruned = 0;
    match op {
        Op::ImportAuthor(a) => es(store.import_author(author(*a).clone()))?,
        Op::ImportDoc(d) => {
            es(store.import_namespace(Capability::Write(namespace(*d).clone())))?;
        }
        Op::Local { d, a, k, c } => {
            let (hash, len) = content(*c);
            let r = rt.block_on(async {
                match store.open_replica(&ids[*d as usize]) {
                    Err(_) => Ok(None),
                    Ok(mut r) => match r.insert(key(*k), author(*a), hash, len).await {
                        Ok(n) => Ok(Some(n)),
                        Err(InsertError::NewerEntryExists) => Ok(None),
                        Err(e) => Err(format!("{e:?}")),
                    },
                }
            })?;
            store.close_replica(ids[*d as usize]);
            pruned = r.unwrap_or(0);
        }
        Op::Delete { d, a, k } => {
            let r = rt.block_on(async {
                match store.open_replica(&ids[*d as usize]) {
                    Err(_) => Ok(None),
                    Ok(mut r) => match r.delete_prefix(key(*k), author(*a)).await {
                        Ok(n) => Ok(Some(n)),
                        Err(InsertError::NewerEntryExists) => Ok(None),
                        Err(e) => Err(format!("{e:?}")),
                    },
                }
            })?;
            store.close_replica(ids[*d as usize]);
            pruned = r.unwrap_or(0);
        }
        Op::Remote { d, a, k, t, c } => {
            let e = sign(namespace(*d), &ESpec { a: *a, k: key(*k), t: T0 + *t as u64, c: *c });
            let r = rt.block_on(async {
                match store.open_replica(&ids[*d as usize]) {
                    Err(_) => Ok(None),
                    Ok(mut r) => match r.insert_remote_entry(e, [6u8; 32], ContentStatus::Missing).await {
                        Ok(n) => Ok(Some(n)),
                        Err(InsertError::NewerEntryExists) => Ok(None),
                        Err(e) => Err(format!("{e:?}")),
                    },
                }
            })?;
            store.close_replica(ids[*d as usize]);
            pruned = r.unwrap_or(0);
        }
        Op::Policy(d, p) => {
            let _ = store.set_download_policy(&ids[*d as usize], DownloadPolicy::NothingExcept(vec![FilterKind::Prefix(key(*p).into())]));
        }
        Op::Peer(d, p) => {
            let _ = store.register_useful_peer(ids[*d as usize], [*p + 1; 32]);
        }
        Op::Remove(d) => {
            let _ = store.remove_replica(&ids[*d as usize]);
        }
        Op::Flush => {
            es(store.flush())?;
            commits = true;
        }
        Op::ReadMany(d) => {
            let n = es(store.get_many(ids[*d as usize], Query::all()))?.count();
            let _ = n;
            commits = true;
        }
        Op::ReadHashes => {
            let _ = es(store.content_hashes())?.count();
            commits = true;
        }
        Op::ReadList => {
            let _ = es(store.list_namespaces())?.count();
            commits = true;
        }
        Op::Restart => {
            // handled by the caller (needs the path); documented commit (Drop flushes)
            commits = true;
        }
        Op::Bulk { d, n } => {
            let entries = bulk_entries(*d);
            rt.block_on(async {
                if let Ok(mut r) = store.open_replica(&ids[*d as usize]) {
                    for e in entries.iter().take(*n as usize) {
                        let _ = r.insert_remote_entry(e.clone(), [6u8; 32], ContentStatus::Missing).await;
                    }
                }
            });
            store.close_replica(ids[*d as usize]);
        }
    }
    Ok((commits, pruned))
}

fn run(ctx: &mut Ctx, c: &Case, o: &mut Outcome) -> R<()> {
    let ids = docs();
    // witness: the same history on an in-memory store, state after every complete operation
    let mut witness = Store::memory();
    let mut states: Vec<StoreDump> = vec![store_dump(&mut witness, &ids)?];
    let mut commit_at: Vec<bool> = vec![true]; // S_0 (fresh store) is durable
    let mut pruned_by: Vec<usize> = vec![0];
    for (i, op) in c.ops.iter().enumerate() {
        let (commits, pruned) = apply(&ctx.rt, &mut witness, i, op)?;
        states.push(store_dump(&mut witness, &ids)?);
        commit_at.push(commits);
        pruned_by.push(pruned);
    }
    drop(witness);

    // dry run on a file: number of store accesses per operation
    let path = ctx.fresh_path("c06");
    let mut access_after_op: Vec<u64> = vec![];
    {
        let mut store = es(Store::persistent(&path))?;
        verif::arm_age_at(None);
        verif::reset_accesses();
        for (i, op) in c.ops.iter().enumerate() {
            if matches!(op, Op::Restart) {
                drop(store);
                store = es(Store::persistent(&path))?;
            } else {
                apply(&ctx.rt, &mut store, i, op)?;
            }
            access_after_op.push(verif::accesses());
        }
        drop(store);
        let _ = std::fs::remove_file(&path);
    }
    let total = *access_after_op.last().unwrap_or(&0);
    let cap = ctx.tier.pick(120, 400);
    let mut placements: Vec<Option<u64>> = vec![None];
    let bulk_at = c.ops.iter().position(|op| matches!(op, Op::Bulk { .. }));
    if let Some(b) = bulk_at {
        // thousands of accesses: a forced commit only at a few places after the batch (inside the first operations that follow)
        o.class("large-uncommitted-batch");
        let start = access_after_op[b];
        placements.extend((start + 1..=(start + 12).min(total)).map(Some));
    } else {
        placements.extend((1..=total.min(cap)).map(Some));
    }

    let image = ctx.fresh_path("c06-image");
    let mut evaluated = 0u64;
    'placements: for armed in placements {
        let path = ctx.fresh_path("c06");
        let mut store = es(Store::persistent(&path))?;
        verif::reset_accesses();
        verif::arm_age_at(armed);
        let armed_op = armed.map(|k| access_after_op.iter().position(|a| *a >= k).unwrap_or(c.ops.len()));
        let mut last_commit = 0usize; // index into states
        for (i, op) in c.ops.iter().enumerate() {
            let before = verif::accesses();
            if matches!(op, Op::Restart) {
                drop(store);
                store = es(Store::persistent(&path))?;
            } else {
                apply(&ctx.rt, &mut store, i, op)?;
            }
            let after = verif::accesses();
            if commit_at[i + 1] {
                last_commit = i + 1;
            }
            if let Some(ao) = armed_op {
                if i < ao {
                    continue;
                }
            }
            // strictly inside a multi-access operation?
            let inside = armed.map(|k| k > before + 1 && k <= after).unwrap_or(false);
            // crash now: copy the file as it is
            es(std::fs::copy(&path, &image))?;
            evaluated += 1;
            let mut img = match Store::persistent(&image) {
                Ok(s) => s,
                Err(e) => {
                    o.fail("C06/image-does-not-open", format!("placement {:?}, crash after op {i} {:?}: {e:?}", armed, op));
                    break 'placements;
                }
            };
            let got = store_dump(&mut img, &ids)?;
            let mut consistent = Ok(());
            for ns in &ids {
                if let Err(e) = self_consistent(&mut img, *ns) {
                    consistent = Err(e);
                }
            }
            drop(img);
            let _ = std::fs::remove_file(&image);
            let mut hit = (last_commit..=i + 1).find(|j| states[*j] == got);
            if hit.is_none() {
                if let Some(b) = bulk_at {
                    // a bulk operation is thousands of inserts: the real age-based commit (500 ms of wall-clock time) may fire
                    // between two of them, so "S_b plus the first m inserts of the batch" is a state the store passed through
                    if last_commit <= b + 1 && b <= i {
                        let (g, m, prefix_ok) = strip_bulk(&got);
                        let (sb, _, _) = strip_bulk(&states[b]);
                        if prefix_ok && m > 0 && g == sb {
                            hit = Some(b);
                            o.class("large-uncommitted-batch/age-commit-inside-the-batch");
                        }
                    }
                }
            }
            if inside && hit.map(|j| j < i + 1).unwrap_or(true) {
                o.nontrivial = true;
                o.class("placement-inside-multi-access-op+image-before-next-commit");
            }
            if hit.is_none() {
                // which known shape is it?
                let mut sig = "C06/image-is-not-a-state-the-store-passed-through".to_string();
                if let (Some(k), Some(ao)) = (armed, armed_op) {
                    let first = if ao == 0 { 0 } else { access_after_op[ao - 1] };
                    let nth = k - first; // 1-based access inside the armed op
                    let is_insert = matches!(c.ops[ao], Op::Local { .. } | Op::Delete { .. } | Op::Remote { .. });
                    if is_insert && pruned_by[ao + 1] > 0 && nth == 4 {
                        // prune committed, superseding entry not: exactly the pre-state minus the pruned children?
                        let mut expect = states[ao].clone();
                        let post = &states[ao + 1];
                        for (nsb, d) in expect.docs.iter_mut() {
                            let keep: Vec<SignedEntry> = d.entries.iter().filter(|e| post.docs[nsb].entries.contains(e)).cloned().collect();
                            let keep_bk: Vec<SignedEntry> = d.by_key.iter().filter(|e| post.docs[nsb].entries.contains(e)).cloned().collect();
                            d.entries = keep;
                            d.by_key = keep_bk;
                        }
                        expect.content_hashes = got.content_hashes.clone();
                        let mut got_cmp = got.clone();
                        for (nsb, d) in got_cmp.docs.iter_mut() {
                            d.heads = expect.docs[nsb].heads.clone();
                        }
                        if got_cmp == expect {
                            sig = "C06/auto-commit-between-prune-and-put".to_string();
                        }
                    }
                }
                o.fail(
                    sig,
                    format!(
                        "commit forced at store access {:?} (inside op {:?}), crash after op {i} {:?}: the image shows {} which is none of the states S_{}..S_{} the live store passed through (S_{} = {})",
                        armed,
                        armed_op,
                        op,
                        describe_store(&got),
                        last_commit,
                        i + 1,
                        i + 1,
                        describe_store(&states[i + 1])
                    ),
                );
                break 'placements;
            }
            if let Err(e) = consistent {
                o.fail("C06/image-inconsistent", format!("placement {:?}, crash after op {i}: {e}", armed));
                break 'placements;
            }
        }
        drop(store);
        let _ = std::fs::remove_file(&path);
    }
    let _ = std::fs::remove_file(&image);
    if evaluated > 0 {
        o.class("images-checked");
    }
    o.count("crash_images_opened", evaluated);
    o.count("commit_placements", if bulk_at.is_some() { 13 } else { total.min(cap) + 1 });
    Ok(())
}


/// The same histories through the store actor: the file is copied after every acknowledged request while the
/// actor is alive; `flush_store` and the snapshot-taking requests are the documented commit points; after
/// `shutdown` the reopened file must show the final state.
fn run_actor(ctx: &mut Ctx, c: &Case, o: &mut Outcome) -> R<()> {
    use iroh_docs::actor::OpenOpts;
    o.class("via-actor");
    let ids = docs();
    // witness on an in-memory store, through the same interpreter as the Store-level variant
    let mut witness = Store::memory();
    let mut states: Vec<StoreDump> = vec![store_dump(&mut witness, &ids)?];
    let mut commit_at: Vec<bool> = vec![true];
    for (i, op) in c.ops.iter().enumerate() {
        let (commits, _) = apply(&ctx.rt, &mut witness, i, op)?;
        states.push(store_dump(&mut witness, &ids)?);
        commit_at.push(commits);
    }
    drop(witness);
    let path = ctx.fresh_path("c06a");
    let image = ctx.fresh_path("c06a-image");
    let mut h = crate::act::spawn(es(Store::persistent(&path))?);
    let mut last_commit = 0usize;
    let mut images = 0u64;
    for (i, op) in c.ops.iter().enumerate() {
        let now = T0 + 10 + i as u64;
        verif::set_clock(Some(now));
        let r: R<()> = ctx.rt.block_on(async {
            match op {
                Op::ImportAuthor(a) => {
                    es(h.import_author(author(*a).clone()).await)?;
                }
                Op::ImportDoc(d) => {
                    es(h.import_namespace(Capability::Write(namespace(*d).clone())).await)?;
                }
                Op::Local { d, a, k, c } => {
                    // the Store-level interpreter signs with the pool author directly; the actor needs the author in the store
                    let ns = ids[*d as usize];
                    if h.open(ns, OpenOpts::default().sync()).await.is_ok() {
                        let (hash, len) = content(*c);
                        let had = es(h.export_author(author(*a).id()).await)?.is_some();
                        if !had {
                            es(h.import_author(author(*a).clone()).await)?;
                        }
                        let _ = h.insert_local(ns, author(*a).id(), key(*k).into(), hash, len).await;
                        if !had {
                            es(h.delete_author(author(*a).id()).await)?;
                        }
                        let _ = h.close(ns).await;
                    }
                }
                Op::Delete { d, a, k } => {
                    let ns = ids[*d as usize];
                    if h.open(ns, OpenOpts::default().sync()).await.is_ok() {
                        let had = es(h.export_author(author(*a).id()).await)?.is_some();
                        if !had {
                            es(h.import_author(author(*a).clone()).await)?;
                        }
                        let _ = h.delete_prefix(ns, author(*a).id(), key(*k).into()).await;
                        if !had {
                            es(h.delete_author(author(*a).id()).await)?;
                        }
                        let _ = h.close(ns).await;
                    }
                }
                Op::Remote { d, a, k, t, c } => {
                    let ns = ids[*d as usize];
                    if h.open(ns, OpenOpts::default().sync()).await.is_ok() {
                        let e = sign(namespace(*d), &ESpec { a: *a, k: key(*k), t: T0 + *t as u64, c: *c });
                        let _ = h.insert_remote(ns, e, [6u8; 32], ContentStatus::Missing).await;
                        let _ = h.close(ns).await;
                    }
                }
                Op::Policy(d, p) => {
                    let _ = h.set_download_policy(ids[*d as usize], DownloadPolicy::NothingExcept(vec![FilterKind::Prefix(key(*p).into())])).await;
                }
                Op::Peer(d, p) => {
                    let _ = h.register_useful_peer(ids[*d as usize], [*p + 1; 32]).await;
                }
                Op::Remove(d) => {
                    let _ = h.drop_replica(ids[*d as usize]).await;
                }
                Op::Flush => {
                    es(h.flush_store().await)?;
                }
                Op::ReadMany(d) => {
                    let ns = ids[*d as usize];
                    if h.open(ns, OpenOpts::default()).await.is_ok() {
                        let _ = crate::act::get_many(&h, ns, Query::all().build()).await;
                        let _ = h.close(ns).await;
                    }
                }
                Op::ReadHashes => {
                    let _ = es(h.content_hashes().await)?.count();
                }
                Op::ReadList => {
                    let _ = crate::act::list_replicas(&h).await?;
                }
                Op::Restart | Op::Bulk { .. } => {}
            }
            Ok(())
        });
        r?;
        if matches!(op, Op::Restart) {
            // shutdown hands the store back (flushed); drop it and start a new actor on the same file
            let store = ctx.rt.block_on(async { es(h.shutdown().await) })?;
            drop(store);
            drop(h);
            h = crate::act::spawn(es(Store::persistent(&path))?);
        }
        // ReadMany on a missing document does not reach get_many: it commits only if the document exists
        let commits = match op {
            Op::ReadMany(d) => states[i + 1].namespaces.iter().any(|(id, _)| *id == ids[*d as usize].to_bytes()),
            _ => commit_at[i + 1],
        };
        if commits {
            last_commit = i + 1;
        }
        es(std::fs::copy(&path, &image))?;
        images += 1;
        let mut img = match Store::persistent(&image) {
            Ok(s) => s,
            Err(e) => {
                o.fail("C06/image-does-not-open", format!("actor variant, crash after request {i} {:?}: {e:?}", op));
                break;
            }
        };
        let got = store_dump(&mut img, &ids)?;
        drop(img);
        let _ = std::fs::remove_file(&image);
        if !(last_commit..=i + 1).any(|j| states[j] == got) {
            o.fail(
                "C06/actor-image-is-not-a-state-the-store-passed-through",
                format!("actor variant: crash after request {i} {:?}: the image shows {} which is none of S_{}..S_{} (S_{} = {})", op, describe_store(&got), last_commit, i + 1, i + 1, describe_store(&states[i + 1])),
            );
            break;
        }
        if last_commit < i + 1 {
            o.nontrivial = true;
            o.class("actor/image-with-uncommitted-requests");
        }
    }
    // shutdown flushes: the file must show the final state
    let store = ctx.rt.block_on(async { es(h.shutdown().await) })?;
    drop(store);
    drop(h);
    if !o.failed() {
        let mut st = es(Store::persistent(&path))?;
        let got = store_dump(&mut st, &ids)?;
        if got != states[c.ops.len()] {
            o.fail("C06/actor-shutdown-loses-acknowledged-writes", format!("after shutdown the file shows {} expected {}", describe_store(&got), describe_store(&states[c.ops.len()])));
        }
    }
    let _ = std::fs::remove_file(&path);
    o.count("crash_images_opened", images);
    Ok(())
}
