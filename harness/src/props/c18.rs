//! C18 Opening an older database rebuilds derived tables exactly; reopening is a no-op.

use iroh_docs::{
    store::{DownloadPolicy, FilterKind, Store},
    verif, NamespaceId, SignedEntry,
};
use proptest::{collection::vec, prelude::*};
use redb::{ReadableDatabase, TableHandle};
use serde::{Deserialize, Serialize};

use super::c05::{check_query, resolve, QGen};
use crate::{
    common::*,
    engine::{Ctx, Outcome, Prop, Tier},
    gen::{egen, pools, to_espec, EGen, Pools},
};

pub struct C18;

#[derive(Serialize, Deserialize, Clone, Debug)]
pub struct Case {
    pub pools: Pools,
    pub docs: u8,
    /// (document slot, entry)
    pub entries: Vec<(u8, EGen)>,
    pub with_settings: bool,
    /// bit 0: delete latest-by-author, bit 1: delete records-by-key
    pub delete: u8,
    pub reopens: u8,
    pub queries: Vec<QGen>,
    /// a crowd of further authors: (size class, shape). The number of (document, author) pairs is taken from around 1000,
    /// 1024 and 2048 (`CROWD_SIZES`), spread round-robin over the documents; every pair gets two or three entries whose
    /// newest one sits at the smallest, the greatest or a middle key depending on the shape
    #[serde(default)]
    pub crowd: Option<(u8, u8)>,
}

const CROWD_SIZES: [usize; 8] = [1000, 1023, 1024, 1025, 1030, 2047, 2048, 2049];

fn crowd_author(j: usize) -> iroh_docs::Author {
    iroh_docs::Author::from_bytes(blake3::hash(format!("crowd-author-{j}").as_bytes()).as_bytes())
}

fn crowd_entries(ns: &iroh_docs::NamespaceSecret, a: &iroh_docs::Author, shape: u8, i: usize) -> Vec<SignedEntry> {
    let rec = |k: &[u8], t: u64, c: u8| {
        let (hash, len) = content(c);
        SignedEntry::from_parts(ns, a, k, iroh_docs::sync::Record::new(hash, len, T0 + t))
    };
    match if shape % 4 == 3 { (i % 3) as u8 } else { shape % 4 } {
        0 => vec![rec(b"a", 5, 1), rec(b"b", 1, 2)],
        1 => vec![rec(b"a", 1, 1), rec(b"b", 5, 2)],
        _ => vec![rec(b"a", 2, 1), rec(b"b", 4, 0), rec(b"c", 3, 3)],
    }
}

fn qgen_by_key() -> impl Strategy<Value = QGen> {
    // re-use the C05 query generator through its serialised form
    (
        any::<bool>(),
        prop_oneof![3 => Just(0u8), 3 => 1u8..=3],
        prop_oneof![
            2 => Just(super::c05::KF::Any),
            2 => (any::<u16>(), 0u8..5).prop_map(|(k, t)| super::c05::KF::Exact(k, t)),
            3 => (any::<u16>(), 0u8..5).prop_map(|(k, t)| super::c05::KF::Prefix(k, t)),
        ],
        any::<bool>(),
        any::<bool>(),
        0u8..3,
        prop_oneof![2 => Just(None), 1 => (0u8..=4).prop_map(Some)],
    )
        .prop_map(|(latest, author, keyf, desc, include_empty, offset, limit)| QGen {
            latest,
            author,
            keyf,
            by_key: true,
            desc,
            include_empty,
            offset,
            limit,
        })
}

fn delete_tables(path: &std::path::Path, which: u8) -> R<Vec<String>> {
    let db = es(redb::Database::create(path))?;
    let mut deleted = vec![];
    let tx = es(db.begin_write())?;
    {
        let handles: Vec<_> = es(tx.list_tables())?.collect();
        for h in handles {
            let name = h.name().to_string();
            let hit = (which & 1 != 0 && name == "latest-by-author-1") || (which & 2 != 0 && name == "records-by-key-1");
            if which & 4 != 0 && name == "namespaces-2" {
                // old layout: namespaces-1 maps the id to the write secret
                const V2: redb::TableDefinition<&[u8; 32], (u8, &[u8; 32])> = redb::TableDefinition::new("namespaces-2");
                const V1: redb::TableDefinition<&[u8; 32], &[u8; 32]> = redb::TableDefinition::new("namespaces-1");
                let mut rows: Vec<([u8; 32], [u8; 32])> = vec![];
                {
                    use redb::ReadableTable;
                    let t2 = es(tx.open_table(V2))?;
                    for r in es(t2.iter())? {
                        let (k, v) = es(r)?;
                        let (kind, bytes) = v.value();
                        if kind != 1 {
                            return Err("a read-only document cannot be expressed in the old layout".into());
                        }
                        rows.push((*k.value(), *bytes));
                    }
                }
                {
                    let mut t1 = es(tx.open_table(V1))?;
                    for (k, v) in &rows {
                        es(t1.insert(k, v))?;
                    }
                }
                es(tx.delete_table(V2))?;
                deleted.push("namespaces-2 -> namespaces-1".to_string());
                continue;
            }
            if hit {
                es(tx.delete_table(h))?;
                deleted.push(name);
            }
        }
    }
    es(tx.commit())?;
    drop(db);
    let _ = db_check(path);
    Ok(deleted)
}

/// Re-encode the whole database file row for row in the format of the releases that used redb 2.x (variable-width tuples
/// carry the old type tag: `Legacy<_>` of redb 3), every table included - also the settings and the remembered peers.
fn write_in_old_format(path: &std::path::Path) -> R<()> {
    use redb::{ReadableDatabase, ReadableMultimapTable, ReadableTable, ReadableTableMetadata};
    type RecordsKey<'a> = (&'a [u8; 32], &'a [u8; 32], &'a [u8]);
    type RecordsValue<'a> = (u64, &'a [u8; 64], &'a [u8; 64], u64, &'a [u8; 32]);
    type LatestKey<'a> = (&'a [u8; 32], &'a [u8; 32]);
    type LatestValue<'a> = (u64, &'a [u8]);
    type ByKeyKey<'a> = (&'a [u8; 32], &'a [u8], &'a [u8; 32]);
    let target = path.with_extension("old-format");
    let _ = std::fs::remove_file(&target);
    {
        let src = es(redb::Database::create(path))?;
        let rtx = es(src.begin_read())?;
        let names: Vec<String> = es(rtx.list_tables())?.map(|h| redb::TableHandle::name(&h).to_string()).collect();
        let multi: Vec<String> = es(rtx.list_multimap_tables())?.map(|h| redb::MultimapTableHandle::name(&h).to_string()).collect();
        let dst = es(redb_v3::Database::create(&target))?;
        let wtx = es(dst.begin_write())?;
        {
            macro_rules! copy {
                ($name:expr, $cur:ty, $curv:ty, $old:ty, $oldv:ty) => {
                    if names.iter().any(|n| n == $name) {
                        const CUR: redb::TableDefinition<$cur, $curv> = redb::TableDefinition::new($name);
                        const OLD: redb_v3::TableDefinition<$old, $oldv> = redb_v3::TableDefinition::new($name);
                        let from = es(rtx.open_table(CUR))?;
                        let mut to = es(wtx.open_table(OLD))?;
                        let _ = es(from.len())?;
                        for row in es(from.iter())? {
                            let (k, v) = es(row)?;
                            es(to.insert(k.value(), v.value()))?;
                        }
                    }
                };
            }
            copy!("authors-1", &[u8; 32], &[u8; 32], &[u8; 32], &[u8; 32]);
            copy!("namespaces-1", &[u8; 32], &[u8; 32], &[u8; 32], &[u8; 32]);
            copy!("namespaces-2", &[u8; 32], (u8, &[u8; 32]), &[u8; 32], (u8, &[u8; 32]));
            copy!("download-policy-1", &[u8; 32], &[u8], &[u8; 32], &[u8]);
            copy!("records-1", RecordsKey, RecordsValue, redb_v3::Legacy<RecordsKey>, RecordsValue);
            copy!("latest-by-author-1", LatestKey, LatestValue, LatestKey, redb_v3::Legacy<LatestValue>);
            copy!("records-by-key-1", ByKeyKey, (), redb_v3::Legacy<ByKeyKey>, ());
            if multi.iter().any(|n| n == "sync-peers-1") {
                const CUR: redb::MultimapTableDefinition<&[u8; 32], (u64, &[u8; 32])> = redb::MultimapTableDefinition::new("sync-peers-1");
                const OLD: redb_v3::MultimapTableDefinition<&[u8; 32], (u64, &[u8; 32])> = redb_v3::MultimapTableDefinition::new("sync-peers-1");
                let from = es(rtx.open_multimap_table(CUR))?;
                let mut to = es(wtx.open_multimap_table(OLD))?;
                for row in es(from.iter())? {
                    let (k, vs) = es(row)?;
                    for v in vs {
                        let v = es(v)?;
                        es(to.insert(k.value(), v.value()))?;
                    }
                }
            }
        }
        es(wtx.commit())?;
    }
    es(std::fs::rename(&target, path))?;
    Ok(())
}

fn db_check(path: &std::path::Path) -> R<()> {
    let db = es(redb::Database::create(path))?;
    let tx = es(db.begin_read())?;
    let _ = es(tx.list_tables())?.count();
    Ok(())
}

impl Prop for C18 {
    type Case = Case;
    const ID: &'static str = "C18";

    fn rule() -> String {
        "file stores with 1..=3 documents are filled through the validated path (multi-author, deletion markers, equal timestamps, \
         pruned entries, optional peers/policy), flushed and closed; plain redb then deletes latest-by-author-1, records-by-key-1 or \
         both; after reopening, heads must equal the per-author maxima, key-ordered queries must equal the naive executor, everything \
         else must equal the pre-deletion dump, and 0..=3 further reopens must change nothing; non-trivial = >= 2 documents with \
         data, >= 2 authors, >= 1 deletion marker and a table actually deleted; distinct by serialised case"
            .into()
    }

    fn cases(tier: Tier) -> u64 {
        tier.pick(60_000, 1_000_000)
    }

    fn strategy(tier: Tier) -> BoxedStrategy<Case> {
        let max = tier.pick(16, 40);
        (
            pools(6),
            1u8..=3,
            vec((0u8..3, egen()), 0..=max),
            any::<bool>(),
            // bit 2: the documents are moved back into the old `namespaces-1` table (id -> write secret), as in a database
            // written before the capability table existed
            (prop_oneof![1 => Just(0u8), 3 => Just(1u8), 3 => Just(2u8), 3 => Just(3u8)], prop::bool::weighted(0.35), prop::bool::weighted(0.2)).prop_map(|(d, old, legacy)| {
                // bit 3: the whole file is re-encoded in the tuple format of the releases built on redb 2.x; half of those
                // cases keep every table, so that nothing needs rebuilding and nothing at all may change
                let d = if legacy && d & 1 == 1 { 0 } else { d };
                (if old { d | 4 } else { d }) | if legacy { 8 } else { 0 }
            }),
            0u8..=3,
            vec(qgen_by_key(), 1..=12),
            prop::option::weighted(0.0025, (0u8..8, 0u8..4)),
        )
            .prop_map(|(pools, docs, entries, with_settings, delete, reopens, queries, crowd)| Case {
                pools,
                docs,
                entries,
                with_settings,
                delete,
                reopens,
                queries,
                crowd,
            })
            .boxed()
    }

    fn check(ctx: &mut Ctx, c: &Case) -> Outcome {
        let mut o = Outcome::default();
        let r: R<()> = (|| {
            let keys = c.pools.keys();
            let authors = c.pools.authors();
            let path = ctx.fresh_path("c18");
            verif::set_clock(Some(T0 + 3));
            let docs: Vec<NamespaceId> = (0..c.docs).map(|i| namespace(i).id()).collect();
            let mut store = es(Store::persistent(&path))?;
            let mut per_doc: Vec<Vec<SignedEntry>> = vec![vec![]; c.docs as usize];
            for (d, e) in &c.entries {
                let d = (*d % c.docs) as usize;
                per_doc[d].push(sign(namespace(d as u8), &to_espec(e, &authors, &keys)));
            }
            if let Some((class, shape)) = c.crowd {
                let n = CROWD_SIZES[class as usize % CROWD_SIZES.len()];
                for i in 0..n {
                    let d = i % c.docs as usize;
                    per_doc[d].extend(crowd_entries(namespace(d as u8), &crowd_author(i / c.docs as usize), shape, i));
                }
                o.class("crowd(>=1000-document-author-pairs)");
            }
            for d in 0..c.docs as usize {
                if populate(&ctx.rt, &mut store, namespace(d as u8), &per_doc[d]).is_err() {
                    o.class("skipped/ingress-disagrees-with-model");
                    drop(store);
                    ctx.remove(&path);
                    return Ok(());
                }
                if c.with_settings {
                    es(store.register_useful_peer(docs[d], [d as u8 + 1; 32]))?;
                    es(store.set_download_policy(&docs[d], DownloadPolicy::NothingExcept(vec![FilterKind::Prefix(vec![b'a', d as u8].into())])))?;
                    es(store.import_author(author(d as u8).clone()))?;
                }
            }
            es(store.flush())?;
            let before = store_dump(&mut store, &docs)?;
            // the heads as reported, with the key each one names: which of several entries at the head timestamp is named is
            // the store's choice, but an open that has nothing to rebuild must not change it
            let head_keys = |store: &mut Store| -> R<Vec<std::collections::BTreeMap<[u8; 32], (u64, Vec<u8>)>>> { docs.iter().map(|ns| heads(store, *ns)).collect() };
            let heads_before = head_keys(&mut store)?;
            drop(store);

            let mut deleted = delete_tables(&path, c.delete)?;
            if c.delete & 8 != 0 {
                // the file as one of the releases built on redb 2.x left it (every table, whatever was deleted above stays deleted)
                write_in_old_format(&path)?;
                deleted.push("whole file re-encoded in the redb 2.x tuple format".to_string());
                o.class("file-in-the-redb-2.x-tuple-format");
            }
            if c.delete & 4 != 0 {
                o.class("documents-in-the-old-namespaces-table");
            }
            match c.delete & 3 {
                0 => o.class("delete/none"),
                1 => o.class("delete/latest-by-author"),
                2 => o.class("delete/records-by-key"),
                _ => o.class("delete/both"),
            }
            if (c.delete & 3 != 0) && deleted.is_empty() {
                return Err("tables to delete were not found".into());
            }
            let with_data = before.docs.values().filter(|d| !d.entries.is_empty()).count();
            let n_authors: std::collections::BTreeSet<_> = before.docs.values().flat_map(|d| d.entries.iter().map(|e| e.author().to_bytes())).collect();
            let has_marker = before.docs.values().any(|d| d.entries.iter().any(|e| e.content_len() == 0));
            if with_data >= 2 && n_authors.len() >= 2 && has_marker && !deleted.is_empty() {
                o.nontrivial = true;
            }

            let mut store = match Store::persistent(&path) {
                Ok(s) => s,
                Err(e) => {
                    o.fail("C18/open-fails", format!("opening after deleting {:?} failed: {e:?}", deleted));
                    ctx.remove(&path);
                    return Ok(());
                }
            };
            let mut prev = store_dump(&mut store, &docs)?;
            let mut prev_heads = head_keys(&mut store)?;
            if c.delete & 1 == 0 && prev_heads != heads_before {
                o.fail(
                    "C18/reopen-not-a-noop",
                    format!("the head table was up to date (deleted {:?}), yet the reported heads changed over a reopen: {:?} became {:?}", deleted, brief_head_keys(&heads_before), brief_head_keys(&prev_heads)),
                );
            }
            // heads vs. the records (model), not vs. the old head table
            for ns in &docs {
                let d = dump(&mut store, *ns)?;
                if let Err(e) = heads_consistent(&mut store, *ns, &d) {
                    o.fail("C18/heads-after-rebuild", format!("deleted {:?}: {e}", deleted));
                }
                if let Err(e) = self_consistent(&mut store, *ns) {
                    o.fail("C18/consistency-after-rebuild", format!("deleted {:?}: {e}", deleted));
                }
            }
            if !o.failed() && prev != before {
                o.fail(
                    "C18/content-changed",
                    format!("deleted {:?}; before: {} ; after reopen: {}", deleted, describe_store(&before), describe_store(&prev)),
                );
            }
            if !o.failed() {
                for q in &c.queries {
                    let ns = docs[0];
                    let contents = before.docs[&ns.to_bytes()].entries.clone();
                    let r = resolve(q, &authors, &keys);
                    if let Some(f) = check_query(&mut store, ns, &contents, &r, &mut Outcome::default())? {
                        o.fail("C18/key-ordered-query", format!("deleted {:?}: {f}", deleted));
                        break;
                    }
                }
            }
            for k in 0..c.reopens {
                if o.failed() {
                    break;
                }
                drop(store);
                store = es(Store::persistent(&path))?;
                let now = store_dump(&mut store, &docs)?;
                if now != prev {
                    o.fail("C18/reopen-not-a-noop", format!("reopen #{}: {} became {}", k + 1, describe_store(&prev), describe_store(&now)));
                }
                let now_heads = head_keys(&mut store)?;
                if now_heads != prev_heads && !o.failed() {
                    o.fail("C18/reopen-not-a-noop", format!("reopen #{}: the reported heads {:?} became {:?}", k + 1, brief_head_keys(&prev_heads), brief_head_keys(&now_heads)));
                }
                prev_heads = now_heads;
                prev = now;
                o.class("reopen-cycles");
            }
            drop(store);
            ctx.remove(&path);
            verif::set_clock(None);
            Ok(())
        })();
        if let Err(e) = r {
            o.fail("C18/harness-error", e);
        }
        o
    }

    fn assumptions() -> Vec<String> {
        vec!["an 'older database' is emulated by deleting the derived tables with plain redb 4.1; files in the redb 2.x tuple format are written with redb 3 (Legacy types)".into()]
    }
}

fn brief_head_keys(h: &[std::collections::BTreeMap<[u8; 32], (u64, Vec<u8>)>]) -> Vec<Vec<(String, u64, String)>> {
    h.iter().map(|m| m.iter().map(|(a, (t, k))| (hex::encode(&a[..2]), *t, hex::encode(k))).collect()).collect()
}
