//! C10 A sync session ends cleanly whatever the peer sends and whatever fails locally.

use std::{
    pin::Pin,
    sync::{
        atomic::{AtomicBool, Ordering},
        Arc,
    },
    task::{Context, Poll},
    time::Duration,
};

use bytes::BytesMut;
use iroh_docs::{
    actor::{OpenOpts, SyncHandle},
    net::{AbortReason, AcceptOutcome},
    store::Store,
    sync::ProtocolMessage,
    verif::{
        self,
        net::{run_alice, BobState, Frame, FrameCodec, MAX_MESSAGE_SIZE},
    },
    ContentStatus, NamespaceId, RecordIdentifier, SignedEntry, SyncOutcome,
};
use proptest::{collection::vec, prelude::*};
use serde::{Deserialize, Serialize};
use tokio::io::{AsyncRead, AsyncReadExt, AsyncWrite, AsyncWriteExt, ReadBuf};
use tokio_util::codec::{Decoder, Encoder};

use crate::{
    act,
    common::*,
    engine::{Ctx, Outcome, Prop, Tier},
    wire::{MFingerprint, MMessage, MPart, MRange, MRangeFingerprint, MRangeItem},
};

pub struct C10;

#[derive(Serialize, Deserialize, Clone, Debug, PartialEq)]
pub enum Sym {
    InitKnown,
    InitUnknown,
    /// handshake for the known document whose message already carries entries (a range-item part with the
    /// peer's validly signed entries): protocol-conformant, but not what an honest initiator sends first
    InitItems,
    /// the reply a real replica computes from the other side's last message (or its own initial message)
    SyncLive,
    /// a well-formed message the session does not expect (0: foreign-namespace ranges, 1: invalid entries,
    /// 2: empty message, 3: huge fingerprint list)
    SyncGarbage(u8),
    Abort(u8),
    Undecodable(#[serde(with = "hexbytes")] Vec<u8>),
    Oversized,
    /// length prefix announces more than is sent, then the stream ends
    Truncated(u8),
    /// only 1..=3 bytes of a length prefix, then the stream ends
    PartialHeader(u8),
    Close,
}

#[derive(Serialize, Deserialize, Clone, Debug)]
pub struct Small {
    pub a: u8,
    pub k: u8,
    pub t: u8,
    pub c: u8,
}

#[derive(Serialize, Deserialize, Clone, Debug)]
pub enum Case {
    /// scripted peer against the real accepting side; accept: 0 = allow, 1..=3 = reject(reason)
    VsBob { local: Vec<Small>, peer: Vec<Small>, accept: u8, script: Vec<Sym> },
    /// scripted peer against the real initiating side
    VsAlice { local: Vec<Small>, peer: Vec<Small>, script: Vec<Sym> },
    /// real initiator and real acceptor through a proxy; fault = (before frame m, on side A?, kind)
    /// skew = (A is the side whose clock is behind, d): that side's clock reads `T0 + d - 10 min` whenever it processes a
    /// frame, so it refuses the other side's entries stamped later than `T0 + d` as too far in the future
    Faulty {
        a: Vec<Small>,
        b: Vec<Small>,
        fault: Option<(u8, bool, u8)>,
        #[serde(default)]
        skew: Option<(bool, u8)>,
        /// a crowd of authors: one side (A if the flag is set) additionally holds `CROWD_AUTHORS[class]` entries, each by an
        /// author of its own (more distinct keys than any per-store key cache is likely to hold)
        #[serde(default)]
        crowd: Option<(u8, bool)>,
    },
    /// two real live actors (the C11 interpreter, lifecycle mode: the documents exist in both stores): requests are
    /// declined (document held but not synced, already syncing), lost, or their sessions fail; judged here only for
    /// "a declined request changes nothing in the store"
    Live(crate::props::c11::Case),
}

fn key(k: u8) -> Vec<u8> {
    match k % 6 {
        0 => vec![],
        1 => b"a".to_vec(),
        2 => b"ab".to_vec(),
        3 => b"b".to_vec(),
        4 => vec![b'a', 0xFF],
        _ => b"c".to_vec(),
    }
}

fn small() -> impl Strategy<Value = Small> {
    (0u8..3, 0u8..6, 0u8..8, 0u8..4).prop_map(|(a, k, t, c)| Small { a, k, t, c })
}

fn sym() -> impl Strategy<Value = Sym> {
    prop_oneof![
        4 => Just(Sym::InitKnown),
        1 => Just(Sym::InitUnknown),
        2 => Just(Sym::InitItems),
        6 => Just(Sym::SyncLive),
        3 => (0u8..4).prop_map(Sym::SyncGarbage),
        2 => (0u8..3).prop_map(Sym::Abort),
        2 => vec(any::<u8>(), 0..24).prop_map(Sym::Undecodable),
        1 => Just(Sym::Oversized),
        1 => (1u8..40).prop_map(Sym::Truncated),
        1 => (1u8..=3).prop_map(Sym::PartialHeader),
        1 => Just(Sym::Close),
    ]
}

const FAULT_KINDS: u8 = 6;

impl Prop for C10 {
    type Case = Case;
    const ID: &'static str = "C10";
    const LEVEL: &'static str = "fault_enumeration";

    fn rule() -> String {
        "(a) a scripted peer plays frame sequences over the alphabet {Init(known), Init(unknown), Init carrying entries, Sync(live reply of a real replica), \
         Sync(unexpected but well-formed), Abort(each reason), undecodable frame, oversized length, truncated frame, close} against \
         the real accepting side (BobState::run + into_outcome, accept callback Allow or Reject(each reason)) and against the real \
         initiating side (run_alice), over in-memory duplex streams; all sequences of length <= 3 (quick) / <= 4 (thorough) over an \
         11-symbol alphabet are enumerated, longer ones generated; (b) the real initiator and the real acceptor talk through a proxy \
         that, before forwarding frame m (every m enumerated per pair of stores), closes the replica, disables sync, shuts the \
         store actor down, or cuts the stream inside the frame (clean EOF or reset) on one side. Oracle: both sides finish within \
         the watchdog, nobody panics (including into_outcome after an error and the store actor thread), a rejected Init produces \
         an Abort frame and leaves the store unchanged, and in fault-free runs both sides succeed with mirrored counters and equal, \
         merged stores. non-trivial = the script gets past an accepted Init and then deviates, or a fault is injected at m >= 2; \
         distinct by serialised case"
            .into()
    }

    fn cases(tier: Tier) -> u64 {
        tier.pick(20_000, 800_000)
    }

    fn enumerate(tier: Tier) -> Vec<Case> {
        let alphabet = vec![
            Sym::InitKnown,
            Sym::InitUnknown,
            Sym::InitItems,
            Sym::SyncLive,
            Sym::SyncGarbage(1),
            Sym::Abort(1),
            Sym::Undecodable(vec![0xFF, 0x01, 0x02]),
            Sym::Oversized,
            Sym::Truncated(9),
            Sym::PartialHeader(2),
            Sym::Close,
        ];
        let maxlen = tier.pick(3, 4);
        let mut seqs: Vec<Vec<Sym>> = vec![vec![]];
        let mut frontier: Vec<Vec<Sym>> = vec![vec![]];
        for _ in 0..maxlen {
            let mut next = vec![];
            for s in &frontier {
                for a in &alphabet {
                    let mut t = s.clone();
                    t.push(a.clone());
                    next.push(t);
                }
            }
            seqs.extend(next.iter().cloned());
            frontier = next;
        }
        let local = vec![Small { a: 0, k: 1, t: 1, c: 1 }, Small { a: 1, k: 2, t: 2, c: 2 }];
        let peer = vec![Small { a: 0, k: 1, t: 3, c: 0 }, Small { a: 2, k: 3, t: 1, c: 3 }, Small { a: 1, k: 5, t: 1, c: 1 }];
        let mut out = vec![];
        for (i, s) in seqs.into_iter().enumerate() {
            let accepts: &[u8] = if s.len() <= 2 { &[0, 1, 2, 3] } else { &[0, 2] };
            for acc in accepts {
                out.push(Case::VsBob { local: local.clone(), peer: peer.clone(), accept: *acc, script: s.clone() });
            }
            if i % 2 == 0 || s.len() <= 3 {
                out.push(Case::VsAlice { local: local.clone(), peer: peer.clone(), script: s });
            }
        }
        // fault enumeration for two fixed pairs of stores: every frame index x side x kind
        for (a, b) in [(local.clone(), peer.clone()), (peer.clone(), vec![])] {
            out.push(Case::Faulty { a: a.clone(), b: b.clone(), fault: None, skew: None, crowd: None });
            for behind_a in [true, false] {
                for d in 0..4u8 {
                    out.push(Case::Faulty { a: a.clone(), b: b.clone(), fault: None, skew: Some((behind_a, d)), crowd: None });
                }
            }
            for m in 1..=8u8 {
                for side in [true, false] {
                    for kind in 0..FAULT_KINDS {
                        out.push(Case::Faulty { a: a.clone(), b: b.clone(), fault: Some((m, side, kind)), skew: None, crowd: None });
                    }
                }
            }
        }
        out
    }

    fn strategy(_tier: Tier) -> BoxedStrategy<Case> {
        let vs_bob = (vec(small(), 0..=5), vec(small(), 0..=6), prop_oneof![3 => Just(0u8), 1 => 1u8..=3], vec(sym(), 0..=6))
            .prop_map(|(local, peer, accept, script)| Case::VsBob { local, peer, accept, script });
        let vs_alice = (vec(small(), 0..=5), vec(small(), 0..=6), vec(sym(), 0..=6)).prop_map(|(local, peer, script)| Case::VsAlice { local, peer, script });
        let faulty = (
            vec(small(), 0..=8),
            vec(small(), 0..=8),
            prop::option::weighted(0.8, (1u8..=10, any::<bool>(), 0u8..FAULT_KINDS)),
            prop::option::weighted(0.3, (any::<bool>(), 0u8..8)),
        )
            .prop_map(|(a, b, fault, skew)| Case::Faulty { a, b, fault, skew, crowd: None });
        let crowd = (vec(small(), 0..=4), vec(small(), 0..=4), 0u8..6, any::<bool>()).prop_map(|(a, b, class, on_a)| Case::Faulty { a, b, fault: None, skew: None, crowd: Some((class, on_a)) });
        let live = {
            use crate::props::c11::{Case as L, Pick};
            (any::<bool>(), vec((any::<u16>(), any::<u8>()).prop_map(|(which, flavour)| Pick { which, flavour }), 1..=24), 2u8..=4, vec(any::<u16>(), 0..8))
                .prop_map(|(swap, picks, max_dials, drain)| Case::Live(L::Random { swap, picks, max_dials, drain, lifecycle: true }))
        };
        prop_oneof![200 => vs_bob, 100 => vs_alice, 200 => faulty, 30 => live, 1 => crowd].boxed()
    }

    fn check(ctx: &mut Ctx, case: &Case) -> Outcome {
        let mut o = Outcome::default();
        verif::set_clock(Some(T0 + 3));
        let mut attempts = 0;
        loop {
            attempts += 1;
            let mut trial = Outcome::default();
            let r = match case {
                Case::VsBob { local, peer, accept, script } => vs_bob(ctx, local, peer, *accept, script, &mut trial),
                Case::VsAlice { local, peer, script } => vs_alice(ctx, local, peer, script, &mut trial),
                Case::Faulty { a, b, fault, skew, crowd } => faulty(ctx, a, b, *fault, *skew, *crowd, &mut trial),
                Case::Live(c) => live(ctx, c, &mut trial),
            };
            verif::set_actor_exit_pause_ms(0);
            match r {
                Err(e) if e == "WATCHDOG" => {
                    // a hang must reproduce three times in a row to count
                    if attempts >= 3 {
                        trial.fail("C10/hang", "a side of the session (or, with a crowd of authors, filling a store) did not finish within 20 s (40 s with a crowd) in three consecutive runs of this case".to_string());
                        o = trial;
                        break;
                    }
                    continue;
                }
                Err(e) => {
                    trial.fail("C10/harness-error", e);
                    o = trial;
                    break;
                }
                Ok(()) => {
                    o = trial;
                    break;
                }
            }
        }
        verif::set_clock(None);
        o
    }

    fn assumptions() -> Vec<String> {
        vec![
            "the QUIC streams are replaced by tokio in-memory duplex streams; a cut is modelled as a clean EOF or as a ConnectionReset read error".into(),
            "mirrored counters and merged stores are asserted only for fault-free runs: after a truncation at a frame boundary a clean EOF is indistinguishable from the regular end of a session".into(),
            "a hang is reported only if the 20 s watchdog fires in three consecutive runs of the same case".into(),
        ]
    }

    fn worker_budget_s(tier: Tier) -> u64 {
        tier.pick(1200, 7200)
    }
}

/// The C11 interpreter on two real live actors; its own invariants are C11's business and are not judged here.
fn live(ctx: &mut Ctx, c: &crate::props::c11::Case, o: &mut Outcome) -> R<()> {
    o.class("live-actors");
    let mut inner = Outcome::default();
    let note = crate::props::c11::run(ctx, c, &mut inner)?;
    if inner.failed() {
        o.class("live-actors/skipped(C11-invariant-failed)");
        return Ok(());
    }
    o.count("declined_lost_or_failed_sessions_on_live_actors", note.declined_or_failed_sessions_observed);
    if note.declined_or_failed_sessions_observed > 0 {
        o.nontrivial = true;
        o.class("live-actors/declined-lost-or-failed-session");
    }
    if let Some(v) = note.violation {
        o.fail("C10/declined-or-failed-session-left-a-trace-in-the-store", v);
    }
    Ok(())
}

/// Once the accept callback has allowed a request for namespace N (the live actor then holds the pair's slot as
/// `Running{Accept}`), a failing run must report an error that carries the peer and N: that is all the live actor has to
/// free the slot again ("the accepting side can always report its outcome").
fn error_names_the_session(res: &Result<NamespaceId, iroh_docs::net::AcceptError>, allowed: Option<NamespaceId>, peer: iroh::PublicKey) -> Option<String> {
    let (Err(e), Some(n)) = (res, allowed) else { return None };
    if e.namespace() != Some(n) || e.peer() != Some(peer) {
        return Some(format!(
            "the request for {} was allowed, then the session failed with {e:?}: the error carries namespace {:?} and peer {:?}, so whoever accepted it cannot tell which session ended",
            n.fmt_short(),
            e.namespace().map(|x| x.fmt_short()),
            e.peer().map(|x| x.fmt_short().to_string())
        ));
    }
    None
}

fn to_entry(s: &Small) -> SignedEntry {
    sign(namespace(0), &ESpec { a: s.a, k: key(s.k), t: T0 + s.t as u64, c: s.c })
}

fn reason(i: u8) -> AbortReason {
    match i % 3 {
        0 => AbortReason::NotFound,
        1 => AbortReason::AlreadySyncing,
        _ => AbortReason::InternalServerError,
    }
}

async fn make_handle(entries: &[Small]) -> R<SyncHandle> {
    let h = act::spawn(Store::memory());
    let ns = namespace(0).id();
    es(h.import_namespace(namespace(0).clone().into()).await)?;
    es(h.open(ns, OpenOpts::default().sync()).await)?;
    for e in entries {
        let _ = h.insert_remote(ns, to_entry(e), [9u8; 32], ContentStatus::Missing).await;
    }
    Ok(h)
}

fn make_peer_store(rt_entries: &[Small]) -> R<Store> {
    let mut s = Store::memory();
    es(s.import_namespace(namespace(0).clone().into()))?;
    // plain puts through the validated path need an async context; callers populate through `fill`
    let _ = rt_entries;
    Ok(s)
}

async fn fill(store: &mut Store, entries: &[Small]) -> R<()> {
    let ns = namespace(0).id();
    let mut r = es(store.open_replica(&ns))?;
    for e in entries {
        let _ = r.insert_remote_entry(to_entry(e), [9u8; 32], ContentStatus::Missing).await;
    }
    drop(r);
    store.close_replica(ns);
    Ok(())
}

fn garbage(kind: u8) -> ProtocolMessage {
    let ns = namespace(0).id();
    let foreign = namespace(1).id();
    let lo = RecordIdentifier::new(foreign, author(0).id(), b"");
    let hi = RecordIdentifier::new(foreign, author(1).id(), b"zz");
    let mine = RecordIdentifier::new(ns, author(0).id(), b"");
    let parts = match kind % 4 {
        0 => vec![MPart::RangeFingerprint(MRangeFingerprint { range: MRange { x: lo.clone(), y: hi.clone() }, fingerprint: MFingerprint([3u8; 32]) }), MPart::RangeItem(MRangeItem { range: MRange { x: hi, y: lo }, values: vec![], have_local: false })],
        1 => {
            // entries of a foreign namespace and with a broken signature
            let e1 = sign(namespace(1), &ESpec { a: 0, k: b"x".to_vec(), t: T0, c: 1 });
            let mut f = crate::wire::Fields::of(&sign(namespace(0), &ESpec { a: 0, k: b"y".to_vec(), t: T0, c: 1 }));
            f.namespace_sig[0] ^= 1;
            let e2 = f.build().expect("forge");
            vec![MPart::RangeItem(MRangeItem { range: MRange { x: mine.clone(), y: mine.clone() }, values: vec![(e1, ContentStatus::Complete), (e2, ContentStatus::Missing)], have_local: false })]
        }
        2 => vec![],
        _ => (0..64u8).map(|i| MPart::RangeFingerprint(MRangeFingerprint { range: MRange { x: mine.clone(), y: mine.clone() }, fingerprint: MFingerprint([i; 32]) })).collect(),
    };
    MMessage { parts }.to_real()
}

/// A message whose single range-item part carries `entries` (the whole key space, peer asks for ours back).
fn items_message(entries: &[SignedEntry]) -> ProtocolMessage {
    let lo = RecordIdentifier::new(namespace(0).id(), author(0).id(), b"");
    MMessage {
        parts: vec![MPart::RangeItem(MRangeItem {
            range: MRange { x: lo.clone(), y: lo },
            values: entries.iter().map(|e| (e.clone(), ContentStatus::Complete)).collect(),
            have_local: false,
        })],
    }
    .to_real()
}

fn frame_bytes(f: &Frame) -> Vec<u8> {
    let mut out = BytesMut::new();
    FrameCodec::default().encode(f.clone(), &mut out).expect("encode");
    out.to_vec()
}

/// Read one frame (None at a clean EOF / on any error).
async fn read_frame<RD: AsyncRead + Unpin>(r: &mut RD, buf: &mut BytesMut) -> Option<Frame> {
    let mut codec = FrameCodec::default();
    loop {
        match codec.decode(buf) {
            Ok(Some(f)) => return Some(f),
            Ok(None) => {}
            Err(_) => return None,
        }
        let mut tmp = [0u8; 4096];
        match r.read(&mut tmp).await {
            Ok(0) | Err(_) => return None,
            Ok(n) => buf.extend_from_slice(&tmp[..n]),
        }
    }
}

fn frame_message(f: &Frame) -> Option<ProtocolMessage> {
    // Frame is opaque: go through its postcard form (enum: 0 = Init{namespace,message}, 1 = Sync(message), 2 = Abort)
    let b = f.to_postcard();
    match b.first() {
        Some(0) => postcard::from_bytes::<ProtocolMessage>(&b[33..]).ok(),
        Some(1) => postcard::from_bytes::<ProtocolMessage>(&b[1..]).ok(),
        _ => None,
    }
}

fn is_abort(f: &Frame) -> Option<u8> {
    let b = f.to_postcard();
    if b.first() == Some(&2) {
        b.get(1).copied()
    } else {
        None
    }
}

const WATCHDOG: Duration = Duration::from_secs(20);

fn vs_bob(ctx: &mut Ctx, local: &[Small], peer: &[Small], accept: u8, script: &[Sym], o: &mut Outcome) -> R<()> {
    o.class("script-vs-acceptor");
    let ns = namespace(0).id();
    let peer_pk = iroh::SecretKey::from_bytes(&[7u8; 32]).public();
    let res: R<()> = ctx.rt.block_on(async {
        let h = make_handle(local).await?;
        let mut pstore = make_peer_store(peer)?;
        fill(&mut pstore, peer).await?;
        let before = act::dump(&h, ns).await?;
        let (peer_io, bob_io) = tokio::io::duplex(1 << 20);
        let (br, bw) = tokio::io::split(bob_io);
        let (mut pr, mut pw) = tokio::io::split(peer_io);
        let outcome = if accept == 0 { AcceptOutcome::Allow } else { AcceptOutcome::Reject(reason(accept - 1)) };
        let hb = h.clone();
        let allowed: Arc<std::sync::Mutex<Option<NamespaceId>>> = Default::default();
        let allowed2 = allowed.clone();
        let bob = async move {
            let mut st = BobState::new(peer_pk);
            let out2 = outcome.clone();
            let res = st
                .run(bw, br, hb, move |ns_, _p| {
                    if matches!(out2, AcceptOutcome::Allow) {
                        *allowed2.lock().unwrap() = Some(ns_);
                    }
                    std::future::ready(out2.clone())
                })
                .await;
            let nsid = st.namespace();
            // exactly what handle_connection does next
            let out = st.into_outcome();
            let contract = error_names_the_session(&res, *allowed.lock().unwrap(), peer_pk);
            (res.map_err(|e| format!("{e:?}")), nsid, out, contract)
        };
        tokio::pin!(bob);
        let mut bob_done: Option<(Result<NamespaceId, String>, Option<NamespaceId>, SyncOutcome, Option<String>)> = None;

        let peer_entries: Vec<SignedEntry> = crate::common::dump(&mut pstore, ns)?;
        let mut replica = es(pstore.open_replica(&ns))?;
        let mut pstate = SyncOutcome::default();
        let mut rbuf = BytesMut::new();
        let mut last_from_bob: Option<ProtocolMessage> = None;
        let mut started = false; // an Init was accepted
        let mut deviated_after_start = false;
        let mut first_init_seen = false;
        let mut got_abort: Option<u8> = None;
        let mut session_over = false; // the peer's own replica has nothing more to say

        let drive = async {
            for s in script {
                let mut expect_reply = false;
                let bytes: Vec<u8> = match s {
                    Sym::InitKnown | Sym::InitUnknown | Sym::InitItems => {
                        let m = if *s == Sym::InitItems { items_message(&peer_entries) } else { es(replica.sync_initial_message())? };
                        let target = if *s == Sym::InitUnknown { namespace(2).id() } else { ns };
                        if started {
                            deviated_after_start = true;
                        }
                        expect_reply = true;
                        if !first_init_seen {
                            first_init_seen = true;
                            if accept == 0 && *s != Sym::InitUnknown {
                                started = true;
                            }
                        }
                        frame_bytes(&Frame::init(target, m))
                    }
                    Sym::SyncLive => {
                        let m = match last_from_bob.take() {
                            Some(m) if !session_over => match replica.sync_process_message(m, [1u8; 32], &mut pstate).await {
                                Ok(Some(r)) => r,
                                Ok(None) => {
                                    session_over = true;
                                    es(replica.sync_initial_message())?
                                }
                                Err(_) => es(replica.sync_initial_message())?,
                            },
                            _ => {
                                if started {
                                    deviated_after_start = true;
                                }
                                es(replica.sync_initial_message())?
                            }
                        };
                        expect_reply = true;
                        frame_bytes(&Frame::sync(m))
                    }
                    Sym::SyncGarbage(k) => {
                        if started {
                            deviated_after_start = true;
                        }
                        expect_reply = true;
                        frame_bytes(&Frame::sync(garbage(*k)))
                    }
                    Sym::Abort(r) => {
                        if started {
                            deviated_after_start = true;
                        }
                        frame_bytes(&Frame::abort(reason(*r)))
                    }
                    Sym::Undecodable(b) => {
                        if started {
                            deviated_after_start = true;
                        }
                        let mut v = (b.len() as u32).to_be_bytes().to_vec();
                        v.extend_from_slice(b);
                        v
                    }
                    Sym::Oversized => {
                        if started {
                            deviated_after_start = true;
                        }
                        ((MAX_MESSAGE_SIZE as u32) + 1).to_be_bytes().to_vec()
                    }
                    Sym::Truncated(n) => {
                        if started {
                            deviated_after_start = true;
                        }
                        let mut v = ((*n as u32) + 20).to_be_bytes().to_vec();
                        v.extend(std::iter::repeat(0x41).take(*n as usize));
                        let _ = pw.write_all(&v).await;
                        break;
                    }
                    Sym::PartialHeader(n) => {
                        if started {
                            deviated_after_start = true;
                        }
                        let v = 40u32.to_be_bytes()[..(*n as usize).clamp(1, 3)].to_vec();
                        let _ = pw.write_all(&v).await;
                        break;
                    }
                    Sym::Close => {
                        if started {
                            deviated_after_start = true;
                        }
                        break;
                    }
                };
                if pw.write_all(&bytes).await.is_err() {
                    break;
                }
                if expect_reply && bob_done.is_none() {
                    tokio::select! {
                        f = read_frame(&mut pr, &mut rbuf) => {
                            if let Some(f) = f {
                                if let Some(r) = is_abort(&f) { got_abort = Some(r); }
                                last_from_bob = frame_message(&f);
                            }
                        }
                        r = &mut bob => { bob_done = Some(r); }
                    }
                }
            }
            let _ = pw.shutdown().await;
            drop(pw);
            // drain whatever the acceptor still sends, until it is done
            if bob_done.is_none() {
                loop {
                    tokio::select! {
                        f = read_frame(&mut pr, &mut rbuf) => {
                            match f {
                                Some(f) => { if let Some(r) = is_abort(&f) { got_abort = Some(r); } }
                                None => { bob_done = Some((&mut bob).await); break; }
                            }
                        }
                        r = &mut bob => { bob_done = Some(r); break; }
                    }
                }
            }
            // frames written before the acceptor finished may still sit in the pipe
            while let Ok(Some(f)) = tokio::time::timeout(Duration::from_millis(1), read_frame(&mut pr, &mut rbuf)).await {
                if let Some(r) = is_abort(&f) {
                    got_abort = Some(r);
                }
            }
            Ok::<(), String>(())
        };
        match tokio::time::timeout(WATCHDOG, drive).await {
            Err(_) => return Err("WATCHDOG".to_string()),
            Ok(r) => r?,
        }
        drop(replica);
        let (res, _nsid, _out, contract) = bob_done.ok_or("acceptor result missing")?;
        if let Some(v) = contract {
            o.fail("C10/accept-error-does-not-name-the-session", v);
        }
        o.class(if res.is_ok() { "acceptor/ok" } else { "acceptor/reported-error" });
        if started && deviated_after_start {
            o.nontrivial = true;
            o.class("deviates-after-accepted-init");
        }
        // a declined request: abort frame on the wire, store untouched
        let first_is_init = matches!(script.first(), Some(Sym::InitKnown) | Some(Sym::InitUnknown) | Some(Sym::InitItems));
        if accept != 0 && script.first() == Some(&Sym::InitItems) && !peer_entries.is_empty() {
            o.class("declined-init-carrying-entries");
        }
        if accept != 0 && first_is_init {
            o.class("declined");
            let want = reason(accept - 1);
            if got_abort.map(reason_from_wire) != Some(want) {
                o.fail("C10/declined-without-abort-frame", format!("accept callback rejected with {:?} but the peer received abort {:?}", want, got_abort));
            }
            if res.is_ok() {
                o.fail("C10/declined-reported-success", "the accepting side reported success for a request it declined".to_string());
            }
        }
        let after = match tokio::time::timeout(WATCHDOG, act::dump(&h, ns)).await {
            Err(_) => return Err("WATCHDOG".to_string()),
            Ok(r) => r?,
        };
        // mirrored counts against a scripted peer: whatever entered the store during this session arrived in the peer's
        // frames, so on success the acceptor cannot report fewer received entries than that
        if res.is_ok() {
            let new_here = after.iter().filter(|e| !before.contains(e)).count();
            if _out.num_recv < new_here {
                o.fail(
                    "C10/counters",
                    format!("the accepting side finished successfully and took {} new entries from the peer's frames into its store, but reports {} received (sent {})", new_here, _out.num_recv, _out.num_sent),
                );
            }
            if new_here > 0 {
                o.class("acceptor/ok-and-took-entries-from-a-scripted-peer");
            }
        }
        if (accept != 0 || !first_is_init) && after != before {
            o.fail("C10/declined-changed-store", format!("no request was accepted, yet the store went from {} to {}", describe_all(&before), describe_all(&after)));
        }
        // whatever happened, the actor must still be alive and only hold validly signed entries of this namespace
        for e in &after {
            if !crate::wire::Fields::of(e).valid(ns.as_bytes(), T0 + 3) {
                o.fail("C10/invalid-entry-stored", describe(e));
            }
        }
        let _ = h.shutdown().await;
        Ok(())
    });
    res
}

fn reason_from_wire(b: u8) -> AbortReason {
    reason(b)
}

fn vs_alice(ctx: &mut Ctx, local: &[Small], peer: &[Small], script: &[Sym], o: &mut Outcome) -> R<()> {
    o.class("script-vs-initiator");
    let ns = namespace(0).id();
    let peer_pk = iroh::SecretKey::from_bytes(&[8u8; 32]).public();
    ctx.rt.block_on(async {
        let h = make_handle(local).await?;
        let mut pstore = make_peer_store(peer)?;
        fill(&mut pstore, peer).await?;
        let (peer_io, alice_io) = tokio::io::duplex(1 << 20);
        let (mut ar, mut aw) = tokio::io::split(alice_io);
        let (mut pr, mut pw) = tokio::io::split(peer_io);
        let ha = h.clone();
        let alice = async move { run_alice(&mut aw, &mut ar, &ha, ns, peer_pk).await.map_err(|e| format!("{e:?}")) };
        tokio::pin!(alice);
        let mut alice_done: Option<Result<SyncOutcome, String>> = None;
        let mut replica = es(pstore.open_replica(&ns))?;
        let mut pstate = SyncOutcome::default();
        let mut rbuf = BytesMut::new();
        let mut deviated = false;
        let drive = async {
            // the initiator speaks first
            let mut last: Option<ProtocolMessage> = None;
            tokio::select! {
                f = read_frame(&mut pr, &mut rbuf) => { if let Some(f) = f { last = frame_message(&f); } }
                r = &mut alice => { alice_done = Some(r); }
            }
            let mut live_over = false;
            for s in script {
                if alice_done.is_some() {
                    break;
                }
                let mut expect_reply = false;
                let bytes: Vec<u8> = match s {
                    Sym::SyncLive => {
                        let reply = match last.take() {
                            Some(m) if !live_over => match replica.sync_process_message(m, [1u8; 32], &mut pstate).await {
                                Ok(Some(r)) => Some(r),
                                Ok(None) => {
                                    live_over = true;
                                    None
                                }
                                Err(_) => None,
                            },
                            _ => {
                                deviated = true;
                                Some(es(replica.sync_initial_message())?)
                            }
                        };
                        match reply {
                            // a real acceptor with nothing to say ends the session by closing
                            None => break,
                            Some(r) => {
                                expect_reply = true;
                                frame_bytes(&Frame::sync(r))
                            }
                        }
                    }
                    Sym::InitKnown | Sym::InitUnknown | Sym::InitItems => {
                        deviated = true;
                        frame_bytes(&Frame::init(ns, es(replica.sync_initial_message())?))
                    }
                    Sym::SyncGarbage(k) => {
                        deviated = true;
                        expect_reply = true;
                        frame_bytes(&Frame::sync(garbage(*k)))
                    }
                    Sym::Abort(r) => {
                        deviated = true;
                        frame_bytes(&Frame::abort(reason(*r)))
                    }
                    Sym::Undecodable(b) => {
                        deviated = true;
                        let mut v = (b.len() as u32).to_be_bytes().to_vec();
                        v.extend_from_slice(b);
                        v
                    }
                    Sym::Oversized => {
                        deviated = true;
                        ((MAX_MESSAGE_SIZE as u32) + 1).to_be_bytes().to_vec()
                    }
                    Sym::Truncated(n) => {
                        deviated = true;
                        let mut v = ((*n as u32) + 20).to_be_bytes().to_vec();
                        v.extend(std::iter::repeat(0x41).take(*n as usize));
                        let _ = pw.write_all(&v).await;
                        break;
                    }
                    Sym::PartialHeader(n) => {
                        deviated = true;
                        let v = 40u32.to_be_bytes()[..(*n as usize).clamp(1, 3)].to_vec();
                        let _ = pw.write_all(&v).await;
                        break;
                    }
                    Sym::Close => {
                        deviated = true;
                        break;
                    }
                };
                if pw.write_all(&bytes).await.is_err() {
                    break;
                }
                if expect_reply {
                    tokio::select! {
                        f = read_frame(&mut pr, &mut rbuf) => { if let Some(f) = f { last = frame_message(&f); } }
                        r = &mut alice => { alice_done = Some(r); }
                    }
                }
            }
            let _ = pw.shutdown().await;
            drop(pw);
            if alice_done.is_none() {
                loop {
                    tokio::select! {
                        f = read_frame(&mut pr, &mut rbuf) => { if f.is_none() { alice_done = Some((&mut alice).await); break; } }
                        r = &mut alice => { alice_done = Some(r); break; }
                    }
                }
            }
            Ok::<(), String>(())
        };
        match tokio::time::timeout(WATCHDOG, drive).await {
            Err(_) => return Err("WATCHDOG".to_string()),
            Ok(r) => r?,
        }
        drop(replica);
        let res = alice_done.ok_or("initiator result missing")?;
        o.class(if res.is_ok() { "initiator/ok" } else { "initiator/reported-error" });
        if deviated {
            o.nontrivial = true;
            o.class("deviates-after-init");
        }
        let after = match tokio::time::timeout(WATCHDOG, act::dump(&h, ns)).await {
            Err(_) => return Err("WATCHDOG".to_string()),
            Ok(r) => r?,
        };
        for e in &after {
            if !crate::wire::Fields::of(e).valid(ns.as_bytes(), T0 + 3) {
                o.fail("C10/invalid-entry-stored", describe(e));
            }
        }
        let _ = h.shutdown().await;
        Ok(())
    })
}

/// Reader that can be switched to fail with ConnectionReset.
struct FaultyReader<RD> {
    inner: RD,
    reset: Arc<AtomicBool>,
}

impl<RD: AsyncRead + Unpin> AsyncRead for FaultyReader<RD> {
    fn poll_read(mut self: Pin<&mut Self>, cx: &mut Context<'_>, buf: &mut ReadBuf<'_>) -> Poll<std::io::Result<()>> {
        if self.reset.load(Ordering::SeqCst) {
            return Poll::Ready(Err(std::io::Error::new(std::io::ErrorKind::ConnectionReset, "injected reset")));
        }
        let before = buf.filled().len();
        match Pin::new(&mut self.inner).poll_read(cx, buf) {
            Poll::Ready(Ok(())) if buf.filled().len() == before && self.reset.load(Ordering::SeqCst) => {
                Poll::Ready(Err(std::io::Error::new(std::io::ErrorKind::ConnectionReset, "injected reset")))
            }
            other => other,
        }
    }
}

/// Read one raw frame (length prefix + body) or None at EOF.
async fn read_raw<RD: AsyncRead + Unpin>(r: &mut RD) -> Option<Vec<u8>> {
    let mut len = [0u8; 4];
    if r.read_exact(&mut len).await.is_err() {
        return None;
    }
    let n = u32::from_be_bytes(len) as usize;
    let mut body = vec![0u8; n];
    if r.read_exact(&mut body).await.is_err() {
        return None;
    }
    let mut v = len.to_vec();
    v.extend_from_slice(&body);
    Some(v)
}

/// sizes of the crowd of authors (around 256 and 1024, and beyond)
const CROWD_AUTHORS: [usize; 6] = [255, 257, 1023, 1024, 1025, 1100];

/// One entry per author for 1100 authors (signed once per worker).
fn crowd_author_entries() -> &'static Vec<SignedEntry> {
    static B: std::sync::OnceLock<Vec<SignedEntry>> = std::sync::OnceLock::new();
    B.get_or_init(|| {
        (0..1100usize)
            .map(|j| {
                let au = iroh_docs::Author::from_bytes(blake3::hash(format!("c10-crowd-author-{j}").as_bytes()).as_bytes());
                let (hash, len) = content(1);
                SignedEntry::from_parts(namespace(0), &au, [b'q', (j % 7) as u8], iroh_docs::Record::new(hash, len, T0 + 1))
            })
            .collect()
    })
}

fn faulty(ctx: &mut Ctx, a: &[Small], b: &[Small], fault: Option<(u8, bool, u8)>, skew: Option<(bool, u8)>, crowd: Option<(u8, bool)>, o: &mut Outcome) -> R<()> {
    o.class("real-vs-real");
    let crowd_entries: &[SignedEntry] = match crowd {
        Some((class, _)) => {
            o.class("crowd-of-authors(255..1100-distinct-authors-on-one-side)");
            o.nontrivial = true;
            &crowd_author_entries()[..CROWD_AUTHORS[class as usize % CROWD_AUTHORS.len()]]
        }
        None => &[],
    };
    let crowd_on_a = crowd.map(|c| c.1).unwrap_or(false);
    // a crowd takes longer (thousands of signature checks), and a store that stops answering while it is filled is a hang too
    let watchdog = if crowd.is_some() { WATCHDOG * 2 } else { WATCHDOG };
    // per-side clocks (initiator, acceptor): the proxy switches the hooked clock to the receiving side's value before
    // every frame it forwards (lock-step protocol: exactly one side is processing at any time)
    const TEN_MIN: u64 = 600_000_000;
    let clocks: Option<(u64, u64)> = skew.map(|(behind_a, d)| {
        let behind = T0 + d as u64 - TEN_MIN;
        if behind_a { (behind, T0 + 3) } else { (T0 + 3, behind) }
    });
    let ns = namespace(0).id();
    let pk_a = iroh::SecretKey::from_bytes(&[0xA1u8; 32]).public();
    let pk_b = iroh::SecretKey::from_bytes(&[0xB2u8; 32]).public();
    ctx.rt.block_on(async {
        let ha = make_handle(a).await?;
        let hb = make_handle(b).await?;
        // the last handle to go joins the actor thread: when a store actor has stopped answering, that join never returns,
        // so on a watchdog expiry one clone of each handle is leaked on purpose
        let guard = (ha.clone(), hb.clone());
        let fill_crowd = async {
            for e in crowd_entries {
                let h = if crowd_on_a { &ha } else { &hb };
                es(h.insert_remote(ns, e.clone(), [9u8; 32], ContentStatus::Missing).await)?;
            }
            Ok::<_, String>(())
        };
        match tokio::time::timeout(watchdog, fill_crowd).await {
            Err(_) => {
                std::mem::forget(guard);
                return Err("WATCHDOG".to_string());
            }
            Ok(x) => x?,
        }
        let start_a = act::dump(&ha, ns).await?;
        let start_b = act::dump(&hb, ns).await?;
        let (a_io, pa_io) = tokio::io::duplex(1 << 20);
        let (b_io, pb_io) = tokio::io::duplex(1 << 20);
        let (ar, mut aw) = tokio::io::split(a_io);
        let (br, bw) = tokio::io::split(b_io);
        let (mut par, mut paw) = tokio::io::split(pa_io);
        let (mut pbr, mut pbw) = tokio::io::split(pb_io);
        let reset_a = Arc::new(AtomicBool::new(false));
        let reset_b = Arc::new(AtomicBool::new(false));
        let mut ar = FaultyReader { inner: ar, reset: reset_a.clone() };
        let br = FaultyReader { inner: br, reset: reset_b.clone() };
        let ha2 = ha.clone();
        let hb2 = hb.clone();
        if let Some((ca, _)) = clocks {
            verif::set_clock(Some(ca));
        }
        let alice = async move { run_alice(&mut aw, &mut ar, &ha2, ns, pk_b).await.map_err(|e| format!("{e:?}")) };
        let allowed: Arc<std::sync::Mutex<Option<NamespaceId>>> = Default::default();
        let allowed2 = allowed.clone();
        let bob = async move {
            let mut st = BobState::new(pk_a);
            let res = st
                .run(bw, br, hb2, move |n, _p| {
                    *allowed2.lock().unwrap() = Some(n);
                    std::future::ready(AcceptOutcome::Allow)
                })
                .await;
            let out = st.into_outcome();
            // once a request was allowed, a failing run must name the session it fails
            let contract = error_names_the_session(&res, *allowed.lock().unwrap(), pk_a);
            (res.map_err(|e| format!("{e:?}")), out, contract)
        };
        let mut injected_at: Option<u8> = None;
        let ha3 = ha.clone();
        let hb3 = hb.clone();
        let proxy = async {
            let mut count = 0u8;
            let mut from_a = true;
            loop {
                let raw = if from_a { read_raw(&mut par).await } else { read_raw(&mut pbr).await };
                let Some(raw) = raw else { break };
                count += 1;
                if let Some((ca, cb)) = clocks {
                    verif::set_clock(Some(if from_a { cb } else { ca }));
                }
                if let Some((m, side_a, kind)) = fault {
                    if m == count {
                        injected_at = Some(count);
                        let h = if side_a { &ha3 } else { &hb3 };
                        match kind {
                            0 => {
                                let _ = h.close(ns).await;
                            }
                            1 => {
                                let _ = h.set_sync(ns, false).await;
                            }
                            2 => {
                                // the actor stops while the session is running: the stop request is in flight when the
                                // frame is forwarded (the exit-pause hook keeps the actor between "left its loop" and
                                // "dropped its inbox" for a moment, so the next request of the session lands there)
                                verif::set_actor_exit_pause_ms(25);
                                let h2 = h.clone();
                                tokio::spawn(async move {
                                    let _ = h2.shutdown().await;
                                });
                                tokio::time::sleep(Duration::from_millis(5)).await;
                            }
                            _ => {
                                // cut inside the frame: half the bytes, then EOF (kind 3) or reset (kind 4); kind 5: inside
                                // the 4-byte length prefix (1..=3 bytes), then EOF
                                let half = if kind == 5 { &raw[..1 + (m as usize % 3)] } else { &raw[..raw.len() / 2] };
                                if from_a {
                                    let _ = pbw.write_all(half).await;
                                } else {
                                    let _ = paw.write_all(half).await;
                                }
                                if kind == 4 {
                                    reset_a.store(true, Ordering::SeqCst);
                                    reset_b.store(true, Ordering::SeqCst);
                                }
                                break;
                            }
                        }
                    }
                }
                let ok = if from_a { pbw.write_all(&raw).await.is_ok() } else { paw.write_all(&raw).await.is_ok() };
                if !ok {
                    break;
                }
                from_a = !from_a;
            }
            // one side is done (or the stream was cut): close both directions
            let _ = paw.shutdown().await;
            let _ = pbw.shutdown().await;
            drop(paw);
            drop(pbw);
            // keep draining so that nobody blocks on a full pipe
            let mut sink1 = [0u8; 1024];
            let mut sink2 = [0u8; 1024];
            let (mut a_open, mut b_open) = (true, true);
            while a_open || b_open {
                tokio::select! {
                    r = par.read(&mut sink1), if a_open => { if !matches!(r, Ok(n) if n > 0) { a_open = false; } }
                    r = pbr.read(&mut sink2), if b_open => { if !matches!(r, Ok(n) if n > 0) { b_open = false; } }
                }
            }
            count
        };
        let joined = tokio::time::timeout(watchdog, async { tokio::join!(alice, bob, proxy) }).await;
        verif::set_clock(Some(T0 + 3));
        let (ra, (rb, _bob_out_always_available, contract), frames) = match joined {
            Err(_) => {
                std::mem::forget(guard);
                return Err("WATCHDOG".to_string());
            }
            Ok(x) => x,
        };
        drop(guard);
        if let Some(v) = contract {
            o.fail("C10/accept-error-does-not-name-the-session", v);
        }
        match fault {
            None => o.class("fault/none"),
            Some((_, _, 0)) => o.class("fault/close-replica"),
            Some((_, _, 1)) => o.class("fault/disable-sync"),
            Some((_, _, 2)) => o.class("fault/actor-shutdown"),
            Some((_, _, 3)) => o.class("fault/cut-inside-frame-eof"),
            Some((_, _, 4)) => o.class("fault/cut-inside-frame-reset"),
            Some(_) => o.class("fault/cut-inside-length-prefix"),
        }
        if let Some(m) = injected_at {
            if m >= 2 {
                o.nontrivial = true;
                o.class("fault-injected-at-m>=2");
            }
        }
        o.class(match (ra.is_ok(), rb.is_ok()) {
            (true, true) => "result/ok-ok",
            (true, false) => "result/ok-err",
            (false, true) => "result/err-ok",
            _ => "result/err-err",
        });
        if injected_at.is_none() {
            // fault-free (or the fault index lies beyond the end of the session): full functional check
            let (oa, ob) = match (&ra, &rb) {
                (Ok(oa), Ok(_)) => (oa.clone(), _bob_out_always_available.clone()),
                _ => {
                    o.fail("C10/fault-free-session-failed", format!("{frames} frames, initiator {:?}, acceptor {:?}", ra.as_ref().map(|_| "ok"), rb.as_ref().map(|_| "ok")));
                    return Ok(());
                }
            };
            if oa.num_sent != ob.num_recv || oa.num_recv != ob.num_sent {
                o.fail("C10/counters", format!("initiator sent {} recv {}, acceptor sent {} recv {}", oa.num_sent, oa.num_recv, ob.num_sent, ob.num_recv));
            }
            let fa = act::dump(&ha, ns).await?;
            let fb = act::dump(&hb, ns).await?;
            // each side ends with the merge of what it held and what it could accept from the other side under its own clock
            let acceptable = |from: &[SignedEntry], now: Option<u64>| -> Vec<SignedEntry> {
                from.iter().filter(|e| now.map_or(true, |n| e.timestamp() <= n + TEN_MIN)).cloned().collect()
            };
            let from_b = acceptable(&start_b, clocks.map(|c| c.0));
            let from_a = acceptable(&start_a, clocks.map(|c| c.1));
            let want_a = Model::merge(start_a.iter().chain(from_b.iter())).dump();
            let want_b = Model::merge(start_b.iter().chain(from_a.iter())).dump();
            if from_a.len() < start_a.len() || from_b.len() < start_b.len() {
                o.class("skew/receiver-refused-entries-as-too-far-in-the-future");
                o.nontrivial = true;
            } else if clocks.is_some() {
                o.class("skew/nothing-refused");
            }
            if fa != want_a || fb != want_b {
                o.fail(
                    "C10/not-merged",
                    format!("clocks {clocks:?}: A {} B {}, expected A {} B {}", describe_all(&fa), describe_all(&fb), describe_all(&want_a), describe_all(&want_b)),
                );
            }
            if !start_a.is_empty() || !start_b.is_empty() {
                o.nontrivial = o.nontrivial || (start_a != start_b);
            }
        }
        let _ = tokio::time::timeout(WATCHDOG, ha.shutdown()).await;
        let _ = tokio::time::timeout(WATCHDOG, hb.shutdown()).await;
        verif::set_actor_exit_pause_ms(0);
        Ok(())
    })
}

#[allow(dead_code)]
fn _unused(_: &dyn AsyncWrite) {}
