//! C05 Queries return exactly the entries, order and window the query describes.

use std::collections::BTreeMap;

use iroh_docs::{
    store::{Query, SortBy, SortDirection},
    verif, AuthorId, SignedEntry,
};
use proptest::{collection::vec, prelude::*};
use serde::{Deserialize, Serialize};

use crate::{
    common::*,
    engine::{idx, Ctx, Outcome, Prop, Tier},
    gen::{egen, pools, to_espec, EGen, Pools},
};

pub struct C05;

#[derive(Serialize, Deserialize, Clone, Debug)]
pub enum KF {
    Any,
    /// (key index, transform) – transform: 0 as is, 1 parent, 2 ‖FF, 3 empty, 4 ‖00
    Exact(u16, u8),
    Prefix(u16, u8),
}

#[derive(Serialize, Deserialize, Clone, Debug)]
pub struct QGen {
    pub latest: bool,
    /// 0 = any author, 1..=6 = pool author (1-based), 7 = an author that wrote nothing
    pub author: u8,
    pub keyf: KF,
    pub by_key: bool,
    pub desc: bool,
    pub include_empty: bool,
    pub offset: u8,
    pub limit: Option<u8>,
}

#[derive(Serialize, Deserialize, Clone, Debug)]
pub struct Case {
    pub file: bool,
    pub pools: Pools,
    pub entries: Vec<EGen>,
    pub queries: Vec<QGen>,
    /// raw-rows sub-generator: unvalidated rows under synthetic namespace / author ids at byte-order boundaries
    /// (namespace slot, author slots)
    #[serde(default)]
    pub raw: Option<(u8, Vec<u8>)>,
    /// operations on other parts of the store: (before query number, operation)
    #[serde(default)]
    pub noise: Vec<(u16, Noise)>,
    /// before this query the document is removed, imported again and filled with these entries (validated cases only)
    #[serde(default)]
    pub rebuild: Option<(u16, Vec<EGen>)>,
    /// afterwards the same queries once more through the client API of a real engine opened on this database
    /// (`Doc::get_many`, `Doc::get_exact`: the query travels through the RPC layer and its reply through a stream)
    #[serde(default)]
    pub via_api: bool,
}

/// Synthetic ids at byte-order boundaries (used for namespaces and authors alike).
pub fn boundary_id(slot: u8) -> [u8; 32] {
    let mut x = [0x55u8; 32];
    match slot % 8 {
        0 => [0u8; 32],
        1 => {
            let mut z = [0u8; 32];
            z[31] = 1;
            z
        }
        2 => [0xFFu8; 32],
        3 => {
            let mut f = [0xFFu8; 32];
            f[31] = 0xFE;
            f
        }
        4 => x,
        5 => {
            x[31] = 0x56;
            x
        }
        6 => {
            x[30] = 0xFF;
            x[31] = 0xFF;
            x
        }
        _ => {
            // the carry successor of slot 6
            x[29] = 0x56;
            x[30] = 0;
            x[31] = 0;
            x
        }
    }
}

fn kf() -> impl Strategy<Value = KF> {
    prop_oneof![
        2 => Just(KF::Any),
        3 => (any::<u16>(), 0u8..5).prop_map(|(k, t)| KF::Exact(k, t)),
        4 => (any::<u16>(), 0u8..5).prop_map(|(k, t)| KF::Prefix(k, t)),
    ]
}

fn qgen() -> impl Strategy<Value = QGen> {
    (
        any::<bool>(),
        prop_oneof![3 => Just(0u8), 4 => 1u8..=3, 1 => 4u8..=7],
        kf(),
        any::<bool>(),
        any::<bool>(),
        any::<bool>(),
        // 250..=255 stand for u64::MAX-5 ..= u64::MAX (offset + limit then exceeds 64 bits)
        prop_oneof![20 => Just(0u8), 10 => 1u8..=3, 1 => 250u8..=255],
        prop_oneof![20 => Just(None), 10 => (0u8..=4).prop_map(Some), 2 => (250u8..=255).prop_map(Some)],
    )
        .prop_map(|(latest, author, keyf, by_key, desc, include_empty, offset, limit)| QGen {
            latest,
            author,
            keyf,
            by_key,
            desc,
            include_empty,
            offset,
            limit,
        })
}

/// Small values as they are; 250..=255 stand for the six greatest 64-bit values.
fn wide(v: u8) -> u64 {
    if v >= 250 {
        u64::MAX - (255 - v) as u64
    } else {
        v as u64
    }
}

fn transform(k: &[u8], t: u8) -> Vec<u8> {
    let mut v = k.to_vec();
    match t % 5 {
        0 => {}
        1 => {
            v.pop();
        }
        2 => v.push(0xFF),
        3 => v.clear(),
        _ => v.push(0x00),
    }
    v
}

#[derive(Clone, Debug)]
pub enum KeyFilter {
    Any,
    Exact(Vec<u8>),
    Prefix(Vec<u8>),
}

impl KeyFilter {
    fn matches(&self, k: &[u8]) -> bool {
        match self {
            KeyFilter::Any => true,
            KeyFilter::Exact(e) => e == k,
            KeyFilter::Prefix(p) => k.starts_with(p),
        }
    }
}

pub struct Resolved {
    pub latest: bool,
    pub author: Option<AuthorId>,
    pub keyf: KeyFilter,
    pub by_key: bool,
    pub desc: bool,
    pub include_empty: bool,
    pub offset: u64,
    pub limit: Option<u64>,
}

pub fn resolve(q: &QGen, authors: &[u8], keys: &[Vec<u8>]) -> Resolved {
    resolve_with(q, authors, keys, false)
}

pub fn resolve_with(q: &QGen, authors: &[u8], keys: &[Vec<u8>], raw: bool) -> Resolved {
    let author_id = match q.author {
        0 => None,
        7 => Some(iroh_docs::Author::from_bytes(&[0x42; 32]).id()),
        n if raw => Some(AuthorId::from(&boundary_id(authors[(n as usize - 1) % authors.len()]))),
        n => Some(author(authors[(n as usize - 1) % authors.len()]).id()),
    };
    let keyf = match &q.keyf {
        KF::Any => KeyFilter::Any,
        KF::Exact(k, t) => KeyFilter::Exact(transform(&keys[idx(*k, keys.len())], *t)),
        KF::Prefix(k, t) => KeyFilter::Prefix(transform(&keys[idx(*k, keys.len())], *t)),
    };
    Resolved {
        latest: q.latest,
        author: author_id,
        keyf,
        by_key: q.by_key,
        desc: q.desc,
        include_empty: q.include_empty,
        offset: wide(q.offset),
        limit: q.limit.map(wide),
    }
}

pub fn build_query(r: &Resolved) -> Query {
    let dir = if r.desc { SortDirection::Desc } else { SortDirection::Asc };
    macro_rules! common {
        ($b:expr) => {{
            let mut b = $b;
            if let Some(a) = r.author {
                b = b.author(a);
            }
            b = match &r.keyf {
                KeyFilter::Any => b,
                KeyFilter::Exact(k) => b.key_exact(k),
                KeyFilter::Prefix(p) => b.key_prefix(p),
            };
            if r.include_empty {
                b = b.include_empty();
            }
            if r.offset > 0 {
                b = b.offset(r.offset);
            }
            if let Some(l) = r.limit {
                b = b.limit(l);
            }
            b
        }};
    }
    if r.latest {
        common!(Query::single_latest_per_key()).sort_direction(dir).build()
    } else {
        let sort = if r.by_key { SortBy::KeyAuthor } else { SortBy::AuthorKey };
        common!(Query::all()).sort_by(sort, dir).build()
    }
}

fn is_empty(e: &SignedEntry) -> bool {
    e.content_hash() == iroh_blobs::Hash::EMPTY
}

pub enum Expect {
    Exact(Vec<SignedEntry>),
    /// a tie between authors at the greatest timestamp of some key: any maximum is a correct answer
    Tie { keys: Vec<Vec<u8>>, maxima: BTreeMap<Vec<u8>, Vec<SignedEntry>> },
    SkipTie,
}

/// The naive executor over the actual contents.
pub fn naive(contents: &[SignedEntry], r: &Resolved) -> Expect {
    let window = |mut v: Vec<SignedEntry>| {
        if r.desc {
            v.reverse();
        }
        let v: Vec<SignedEntry> = v.into_iter().skip(r.offset as usize).collect();
        match r.limit {
            Some(l) => v.into_iter().take(l as usize).collect(),
            None => v,
        }
    };
    if !r.latest {
        let mut v: Vec<SignedEntry> = contents
            .iter()
            .filter(|e| r.author.map(|a| e.author() == a).unwrap_or(true))
            .filter(|e| r.keyf.matches(e.key()))
            .filter(|e| r.include_empty || !is_empty(e))
            .cloned()
            .collect();
        if r.by_key && r.author.is_none() {
            v.sort_by(|x, y| (x.key(), x.author().to_bytes()).cmp(&(y.key(), y.author().to_bytes())));
        } else {
            v.sort_by(|x, y| (x.author().to_bytes(), x.key()).cmp(&(y.author().to_bytes(), y.key())));
        }
        return Expect::Exact(window(v));
    }
    // latest per key: key filter before grouping, greatest timestamp among ALL authors,
    // author filter after grouping, then the empty filter
    let mut groups: BTreeMap<Vec<u8>, Vec<SignedEntry>> = BTreeMap::new();
    for e in contents.iter().filter(|e| r.keyf.matches(e.key())) {
        groups.entry(e.key().to_vec()).or_default().push(e.clone());
    }
    let mut tie = false;
    let mut maxima: BTreeMap<Vec<u8>, Vec<SignedEntry>> = BTreeMap::new();
    for (k, g) in &groups {
        let top = g.iter().map(|e| e.timestamp()).max().unwrap();
        let m: Vec<SignedEntry> = g.iter().filter(|e| e.timestamp() == top).cloned().collect();
        if m.len() > 1 {
            tie = true;
        }
        maxima.insert(k.clone(), m);
    }
    if tie {
        if r.author.is_none() && r.offset == 0 && r.limit.is_none() && r.include_empty {
            let mut keys: Vec<Vec<u8>> = maxima.keys().cloned().collect();
            if r.desc {
                keys.reverse();
            }
            return Expect::Tie { keys, maxima };
        }
        return Expect::SkipTie;
    }
    let v: Vec<SignedEntry> = maxima
        .into_values()
        .map(|mut m| m.remove(0))
        .filter(|e| r.author.map(|a| e.author() == a).unwrap_or(true))
        .filter(|e| r.include_empty || !is_empty(e))
        .collect();
    Expect::Exact(window(v))
}

pub fn run_query(store: &mut iroh_docs::store::Store, ns: iroh_docs::NamespaceId, r: &Resolved) -> R<Vec<SignedEntry>> {
    let it = es(store.get_many(ns, build_query(r)))?;
    let v: Result<Vec<_>, _> = it.collect();
    es(v)
}

pub fn describe_query(r: &Resolved) -> String {
    format!(
        "{} author={} key={} sort={} {} include_empty={} offset={} limit={:?}",
        if r.latest { "latest-per-key" } else { "flat" },
        r.author.map(|a| author_index(&a).map(|i| format!("a{i}")).unwrap_or("absent".into())).unwrap_or("any".into()),
        match &r.keyf {
            KeyFilter::Any => "any".to_string(),
            KeyFilter::Exact(k) => format!("exact({})", hex::encode(k)),
            KeyFilter::Prefix(k) => format!("prefix({})", hex::encode(k)),
        },
        if r.latest || r.by_key { "key" } else { "author-key" },
        if r.desc { "desc" } else { "asc" },
        r.include_empty,
        r.offset,
        r.limit
    )
}

/// Check one query against the naive executor. Returns (nontrivial, class) or a failure text.
pub fn check_query(
    store: &mut iroh_docs::store::Store,
    ns: iroh_docs::NamespaceId,
    contents: &[SignedEntry],
    r: &Resolved,
    o: &mut Outcome,
) -> R<Option<String>> {
    let got = run_query(store, ns, r)?;
    match naive(contents, r) {
        Expect::SkipTie => {
            o.class("skipped/latest-per-key-tie");
        }
        Expect::Tie { keys, maxima } => {
            o.class("latest-per-key-tie/validity");
            let gk: Vec<Vec<u8>> = got.iter().map(|e| e.key().to_vec()).collect();
            if gk != keys || !got.iter().all(|e| maxima[e.key()].contains(e)) {
                return Ok(Some(format!(
                    "query [{}] on {} returned {} – with ties any maximum per key is fine, keys/order must be exact",
                    describe_query(r),
                    describe_all(contents),
                    describe_all(&got)
                )));
            }
        }
        Expect::Exact(want) => {
            if got != want {
                return Ok(Some(format!(
                    "query [{}] on {} returned {} expected {}",
                    describe_query(r),
                    describe_all(contents),
                    describe_all(&got),
                    describe_all(&want)
                )));
            }
            // unfiltered match set
            let base = contents.iter().filter(|e| r.keyf.matches(e.key())).count();
            let used = [r.author.is_some(), !matches!(r.keyf, KeyFilter::Any), r.desc || r.by_key || r.latest, r.offset > 0 || r.limit.is_some()]
                .iter()
                .filter(|b| **b)
                .count();
            if base >= 2 && used >= 2 {
                o.nontrivial = true;
            }
        }
    }
    Ok(None)
}

impl Prop for C05 {
    type Case = Case;
    const ID: &'static str = "C05";

    fn rule() -> String {
        "a replica state is built through the validated ingress path (prefix chains, 0xFF edges, deletion markers, pruned entries \
         leaving stale by-key ids), then up to 40 queries from the product kind x author filter x key filter x sort x direction x \
         include-empty x offset x limit are compared with a naive executor over the actual contents; get_exact is compared with the \
         exact-key single-author query and the two access paths as sets; non-trivial = the key filter matches >= 2 stored entries \
         and the query uses >= 2 of {author filter, key filter, non-default order or grouping, offset/limit}; distinct by serialised case"
            .into()
    }

    fn cases(tier: Tier) -> u64 {
        tier.pick(80_000, 2_000_000)
    }

    fn strategy(tier: Tier) -> BoxedStrategy<Case> {
        let nq = tier.pick(40, 60);
        let raw = prop::option::weighted(0.2, (0u8..8, vec(0u8..8, 1..=3)));
        let noise = prop_oneof![1 => Just(vec![]), 1 => vec((any::<u16>(), crate::gen::noise()), 1..=8)];
        let rebuild = prop::option::weighted(0.2, (any::<u16>(), vec(egen(), 0..=10)));
        let plain_strategy_marker = (prop::bool::weighted(0.1), pools(8), vec(egen(), 0..=16), vec(qgen(), 1..=nq), raw, noise, rebuild)
            .prop_map(|(file, pools, entries, queries, raw, noise, rebuild)| Case { file, pools, entries, queries, raw, noise, rebuild, via_api: false })
            .boxed();
        let api = (pools(8), vec(egen(), 0..=24), vec(qgen(), 1..=nq)).prop_map(|(pools, entries, queries)| Case { file: true, pools, entries, queries, raw: None, noise: vec![], rebuild: None, via_api: true });
        prop_oneof![150 => plain_strategy_marker, 1 => api].boxed()
    }

    fn check(ctx: &mut Ctx, c: &Case) -> Outcome {
        let mut o = Outcome::default();
        let r: R<()> = (|| {
            let keys = c.pools.keys();
            verif::set_clock(Some(T0 + 3));
            let mut st = AnyStore::new(ctx, c.file)?;
            let (ns, authors, mut contents, raw) = match &c.raw {
                None => {
                    let authors = c.pools.authors();
                    let nssec = namespace(c.pools.ns).clone();
                    let ns = nssec.id();
                    let entries: Vec<SignedEntry> = c.entries.iter().map(|e| sign(&nssec, &to_espec(e, &authors, &keys))).collect();
                    let model = match populate(&ctx.rt, &mut st.store, &nssec, &entries) {
                        Ok(m) => m,
                        Err(_) => {
                            o.class("skipped/ingress-disagrees-with-model");
                            st.cleanup();
                            return Ok(());
                        }
                    };
                    let contents = dump(&mut st.store, ns)?;
                    if contents != model.dump() {
                        o.class("skipped/ingress-disagrees-with-model");
                        st.cleanup();
                        return Ok(());
                    }
                    (ns, authors, contents, false)
                }
                Some((ns_slot, author_slots)) => {
                    // unvalidated rows under boundary ids, through the crate's own put; a neighbouring document too
                    o.class("raw-rows");
                    let ns = iroh_docs::NamespaceId::from(&boundary_id(*ns_slot));
                    let neighbour = iroh_docs::NamespaceId::from(&boundary_id(ns_slot ^ 1));
                    es(st.store.import_namespace(iroh_docs::Capability::Read(ns)))?;
                    es(st.store.import_namespace(iroh_docs::Capability::Read(neighbour)))?;
                    for (i, e) in c.entries.iter().enumerate() {
                        let a = boundary_id(author_slots[crate::engine::idx(e.a, author_slots.len())]);
                        let k = &keys[crate::engine::idx(e.k, keys.len())];
                        let (hash, len) = content(e.c);
                        let target = if i % 4 == 3 { neighbour } else { ns };
                        let fe = crate::wire::forge_entry(&[1u8; 64], &[2u8; 64], target.as_bytes(), &a, k, len, hash.as_bytes(), crate::gen::ts_of(e.t))?;
                        es(verif::store_put(&mut st.store, fe))?;
                    }
                    let contents = dump(&mut st.store, ns)?;
                    (ns, author_slots.clone(), contents, true)
                }
            };
            if c.file {
                st = st.reopen()?;
                o.class("file+reopen");
            }
            let mut noise_state = NoiseState::default();
            let noisy = !c.noise.is_empty() && ns != noise_namespace().id();
            if noisy {
                o.class("noise-on-other-parts-of-the-store-between-queries");
            }
            for (qi, q) in c.queries.iter().enumerate() {
                if noisy {
                    for (at, nz) in &c.noise {
                        if crate::engine::idx(*at, c.queries.len()) == qi {
                            if let Err(e) = apply_noise(&ctx.rt, &mut st.store, nz, &mut noise_state) {
                                o.fail("C05/noise", format!("{:?}: {e}", nz));
                            }
                        }
                    }
                    if o.failed() {
                        break;
                    }
                }
                if let (Some((at, more)), false) = (&c.rebuild, raw) {
                    if crate::engine::idx(*at, c.queries.len()) == qi {
                        let nssec = namespace(c.pools.ns).clone();
                        es(st.store.remove_replica(&ns))?;
                        let entries: Vec<SignedEntry> = more.iter().map(|e| sign(&nssec, &to_espec(e, &authors, &keys))).collect();
                        let Ok(model) = populate(&ctx.rt, &mut st.store, &nssec, &entries) else {
                            o.class("skipped/ingress-disagrees-with-model");
                            break;
                        };
                        contents = dump(&mut st.store, ns)?;
                        if contents != model.dump() {
                            o.fail("C05/recreated-document-not-what-was-offered", format!("after removal and re-creation the document was filled with {} but shows {}", describe_all(&model.dump()), describe_all(&contents)));
                            break;
                        }
                        o.class("document-removed-re-created-and-refilled-between-queries");
                    }
                }
                let r = resolve_with(q, &authors, &keys, raw);
                o.class(if r.latest { "q/latest-per-key" } else if r.by_key { "q/flat-by-key" } else { "q/flat-by-author" });
                if let KeyFilter::Prefix(p) = &r.keyf {
                    if p.last() == Some(&0xFF) {
                        o.class("q/prefix-ending-ff");
                    }
                }
                o.count("queries_compared", 1);
                if let Some(f) = check_query(&mut st.store, ns, &contents, &r, &mut o)? {
                    o.fail(if r.latest { "C05/latest-per-key" } else { "C05/flat" }, f);
                    break;
                }
                // point lookup = exact-key single-author query
                if let (Some(a), KeyFilter::Exact(k)) = (r.author, &r.keyf) {
                    let got = es(st.store.get_exact(ns, a, k, r.include_empty))?;
                    let want = contents
                        .iter()
                        .find(|e| e.author() == a && e.key() == &k[..] && (r.include_empty || !is_empty(e)))
                        .cloned();
                    if got != want {
                        o.fail("C05/get-exact", format!("get_exact({},{},{}) = {:?} expected {:?} on {}", hex::encode(&a.as_bytes()[..3]), hex::encode(k), r.include_empty, got.as_ref().map(describe), want.as_ref().map(describe), describe_all(&contents)));
                        break;
                    }
                }
                // both access paths give the same set
                if !r.latest && r.author.is_none() && r.offset == 0 && r.limit.is_none() {
                    let mut r2 = Resolved { by_key: !r.by_key, ..clone_resolved(&r) };
                    r2.desc = false;
                    let a = as_set(&run_query(&mut st.store, ns, &r)?);
                    let b = as_set(&run_query(&mut st.store, ns, &r2)?);
                    if a != b {
                        o.fail("C05/access-paths", format!("query [{}]: the author-key and key-author paths return different sets on {}", describe_query(&r), describe_all(&contents)));
                        break;
                    }
                }
            }
            if c.via_api && !o.failed() && !raw {
                // the same database behind a real engine: every query once more through the client API
                o.class("queries-through-the-client-api-of-a-real-engine");
                es(st.store.flush())?;
                let path = st.path.clone().ok_or("file store without a path")?;
                drop(st);
                let dir = ctx.fresh_path("c05api-dir");
                es(std::fs::create_dir_all(&dir))?;
                es(std::fs::rename(&path, dir.join("docs.redb")))?;
                let (endpoint, gossip, blobs) = crate::props::c07::api_fixture(ctx)?;
                let res: R<()> = ctx.rt.block_on(async {
                    use crate::props::c07::within;
                    use futures_util::StreamExt;
                    let docs = within("spawning the engine", iroh_docs::protocol::Docs::persistent(dir.clone()).spawn(endpoint, blobs, gossip)).await?.map_err(|e| format!("spawn: {e:?}"))?;
                    let doc = es(within("open", docs.open(ns)).await?)?.ok_or("the document is not there behind the engine")?;
                    for q in &c.queries {
                        let r = resolve_with(q, &authors, &keys, false);
                        let Expect::Exact(want) = naive(&contents, &r) else { continue };
                        let stream = es(within("get_many", doc.get_many(build_query(&r))).await?)?;
                        tokio::pin!(stream);
                        let mut got = vec![];
                        while let Some(x) = within("reply item", stream.next()).await? {
                            got.push(es(x)?);
                        }
                        let want_e: Vec<iroh_docs::Entry> = want.iter().map(|e| e.entry().clone()).collect();
                        o.count("queries_compared", 1);
                        if got != want_e {
                            o.fail(
                                if r.latest { "C05/latest-per-key" } else { "C05/flat" },
                                format!("through the client API: query [{}] on {} returned {} entries {:?}, expected {}", describe_query(&r), describe_all(&contents), got.len(), got.iter().map(|e| (hex::encode(e.key()), e.timestamp())).collect::<Vec<_>>(), describe_all(&want)),
                            );
                            break;
                        }
                        if let (Some(a), KeyFilter::Exact(k)) = (r.author, &r.keyf) {
                            let got = es(within("get_exact", doc.get_exact(a, k, r.include_empty)).await?)?;
                            let want = contents.iter().find(|e| e.author() == a && e.key() == &k[..] && (r.include_empty || !is_empty(e))).map(|e| e.entry().clone());
                            if got != want {
                                o.fail("C05/get-exact", format!("through the client API: get_exact({},{},{}) = {:?} expected {:?}", hex::encode(&a.as_bytes()[..3]), hex::encode(k), r.include_empty, got.map(|e| e.timestamp()), want.map(|e| e.timestamp())));
                                break;
                            }
                        }
                    }
                    drop(doc);
                    within("shutdown", iroh::protocol::ProtocolHandler::shutdown(&docs)).await?;
                    Ok(())
                });
                let _ = std::fs::remove_dir_all(&dir);
                verif::set_clock(None);
                return res;
            }
            verif::set_clock(None);
            st.cleanup();
            Ok(())
        })();
        if let Err(e) = r {
            o.fail(if e.starts_with("harness-timeout") { "C05/harness-timeout" } else { "C05/harness-error" }, e);
        }
        o
    }

    fn assumptions() -> Vec<String> {
        vec![
            "latest-per-key semantics as documented on Query: key filter before grouping, author filter after grouping, then the empty filter".into(),
            "ties between authors at the greatest timestamp: any maximum is accepted (validity predicate) or the query is skipped and counted".into(),
            "the raw-rows sub-generator (20 % of cases, class 'raw-rows') writes unvalidated rows under synthetic namespace / author ids at byte-order boundaries (00..00, 00..01, FF..FF, FF..FE, X, X+1, ..FFFF and its carry successor) plus a neighbouring document; it exercises bound arithmetic only".into(),
        ]
    }
}

pub fn clone_resolved(r: &Resolved) -> Resolved {
    Resolved {
        latest: r.latest,
        author: r.author,
        keyf: r.keyf.clone(),
        by_key: r.by_key,
        desc: r.desc,
        include_empty: r.include_empty,
        offset: r.offset,
        limit: r.limit,
    }
}
