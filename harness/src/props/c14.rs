//! C14 The store actor honours open/close counting and the sync switch.

use iroh_docs::{
    actor::{OpenOpts, SyncHandle},
    store::{Query, Store},
    verif, ContentStatus, Event, NamespaceId, SignedEntry,
};
use proptest::{collection::vec, prelude::*};
use iroh_docs::api::RpcResult;
use serde::{Deserialize, Serialize};

use crate::{
    act,
    common::*,
    engine::{Ctx, Outcome, Prop, Tier},
};

pub struct C14;

#[derive(Serialize, Deserialize, Clone, Debug)]
pub enum Req {
    Open {
        d: u8,
        sync: bool,
        subscribe: bool,
        /// the subscriber's receiving side is already gone when the request is made: the request may succeed (the dead
        /// subscriber is pruned at the next event) or be refused, but a refused open must not change anything
        #[serde(default)]
        dead: bool,
    },
    Close(u8),
    SetSync(u8, bool),
    InsertLocal { d: u8, k: u8, c: u8 },
    DeletePrefix { d: u8, k: u8 },
    InsertRemote { d: u8, k: u8, c: u8, stale: bool },
    GetExact { d: u8, k: u8 },
    GetMany(u8),
    Subscribe(u8),
    Unsubscribe(u8),
    SyncInit(u8),
    SyncProcess(u8),
    GetState(u8),
    Import(u8),
    Drop(u8),
    Flush,
    /// set_download_policy / register_useful_peer: store mutations that need the document to exist (not to be open)
    /// and fail otherwise
    SetPolicy(u8),
    RegisterPeer(u8),
    /// `n` plain opens in a row (a crowd of handles: 254..300, beyond any byte-sized counter)
    OpenMany { d: u8, n: u16 },
    /// `n` closes in a row, each reply compared with the model
    CloseMany { d: u8, n: u16 },
    /// a query whose reply stream (buffer of one item) is left unread while the client goes on with other requests
    GetManyLazy(u8),
    /// the client reads the oldest unread reply stream to its end
    ReadLazy,
}

#[derive(Serialize, Deserialize, Clone, Debug)]
pub struct Seq {
    pub file: bool,
    /// documents imported before the history starts (bit mask over 3 slots)
    pub preimport: u8,
    pub reqs: Vec<Req>,
    /// compare state and contents with the model only at the end (the observing reads commit the open transaction)
    #[serde(default)]
    pub sparse_observe: bool,
}

/// Requests of the concurrent variant: one document, no subscribers.
#[derive(Serialize, Deserialize, Clone, Debug, PartialEq)]
pub enum CReq {
    Open(bool),
    Close,
    SetSync(bool),
    InsertLocal(u8, u8),
    InsertRemote(u8, u8),
    DeletePrefix(u8),
    GetExact(u8),
    GetState,
}

#[derive(Serialize, Deserialize, Clone, Debug)]
pub enum Case {
    Sequential(Seq),
    /// a sequential prefix, then two clients issue their requests concurrently from two threads
    Concurrent {
        pre: Vec<CReq>,
        a: Vec<CReq>,
        b: Vec<CReq>,
        /// an optional third client (empty = two clients)
        #[serde(default)]
        c: Vec<CReq>,
        /// both clients finish with a shutdown request of their own (concurrently): exactly one of them is handed the store
        #[serde(default)]
        both_shutdown: bool,
    },
    /// a sequential prefix, then one client issues the whole batch without waiting for any reply (the requests are
    /// enqueued in issue order); every reply must be what sequential execution in issue order gives
    Pipelined { pre: Vec<CReq>, batch: Vec<CReq> },
    /// one client issues its requests one after the other, but gives up on some of them right after they were enqueued (the
    /// request future is polled once and dropped): an abandoned request still counts as an earlier request - later replies
    /// and the final state reflect it - and abandoning it must not disturb anything else
    Abandoned { pre: Vec<CReq>, reqs: Vec<(CReq, bool)> },
}

#[derive(Clone, Debug, Default)]
struct DocModel {
    exists: bool,
    handles: usize,
    sync: bool,
    /// indices into the channel pool
    subs: Vec<usize>,
    /// subscribers whose receiver was already gone when they were registered: counted until the next event prunes them
    dead_subs: usize,
    entries: Model,
}

fn key(k: u8) -> Vec<u8> {
    match k % 6 {
        0 => vec![],
        1 => b"a".to_vec(),
        2 => b"ab".to_vec(),
        3 => b"b".to_vec(),
        4 => vec![b'a', 0xFF],
        _ => b"abc".to_vec(),
    }
}

impl Prop for C14 {
    type Case = Case;
    const ID: &'static str = "C14";

    fn rule() -> String {
        "sequential client histories of <= 40 (thorough 120) requests over 3 documents: open (with/without sync and subscribe), close, \
         set_sync, insert_local, delete_prefix, insert_remote, get_exact, get_many, subscribe, unsubscribe, sync_initial_message, \
         sync_process_message, get_state, import, drop_replica, flush and a final shutdown; a model {exists, handles, sync, \
         subscribers, entries} per document predicts the success class of every reply, close's boolean, get_state, and the contents; \
         a failed request must leave everything unchanged; the store handed back by shutdown must contain every acknowledged write; \
         non-trivial = some document is opened >= 2 times and closed >= 2 times with requests in between, a request hits a closed \
         document, and sync is toggled. Queries whose reply stream (buffer of one item) the client leaves unread while it goes on must, when \
         read later, yield the contents the document had at some moment between the query and the read, and a shutdown with such \
         streams still unread must hand the store back. Concurrent variant: after a sequential prefix two clients issue <= 5 requests each (or three clients \
         <= 4 each) from their own OS threads; the recorded invoke/response history must be linearizable with respect to the same \
         model (Wing-Gong search over <= 12 operations), whatever interleaving the OS produced; non-trivial there = the two clients' operations overlapped in time \
         and at least one write was acknowledged. Pipelined variant: one client enqueues 2..=12 requests without awaiting any reply; \
         the replies and the final contents must equal sequential execution in issue order (non-trivial = a later request's reply \
         depends on an earlier write or open/close of the same batch); distinct by serialised case"
            .into()
    }

    fn cases(tier: Tier) -> u64 {
        tier.pick(40_000, 400_000)
    }

    fn strategy(tier: Tier) -> BoxedStrategy<Case> {
        let max = tier.pick(40, 120);
        let d = || prop_oneof![3 => Just(0u8), 1 => Just(1u8), 1 => Just(2u8)];
        let req = prop_oneof![
            8 => (d(), any::<bool>(), prop::bool::weighted(0.3), prop::bool::weighted(0.3)).prop_map(|(d, sync, subscribe, dead)| Req::Open { d, sync, subscribe, dead: dead && subscribe }),
            5 => d().prop_map(Req::Close),
            6 => (d(), any::<bool>()).prop_map(|(d, s)| Req::SetSync(d, s)),
            5 => (d(), 0u8..6, 1u8..4).prop_map(|(d, k, c)| Req::InsertLocal { d, k, c }),
            2 => (d(), 0u8..6).prop_map(|(d, k)| Req::DeletePrefix { d, k }),
            4 => (d(), 0u8..6, 0u8..4, prop::bool::weighted(0.2)).prop_map(|(d, k, c, stale)| Req::InsertRemote { d, k, c, stale }),
            2 => (d(), 0u8..6).prop_map(|(d, k)| Req::GetExact { d, k }),
            2 => d().prop_map(Req::GetMany),
            1 => d().prop_map(Req::Subscribe),
            1 => d().prop_map(Req::Unsubscribe),
            2 => d().prop_map(Req::SyncInit),
            2 => d().prop_map(Req::SyncProcess),
            3 => d().prop_map(Req::GetState),
            2 => d().prop_map(Req::Import),
            1 => d().prop_map(Req::Drop),
            1 => Just(Req::Flush),
            1 => d().prop_map(Req::SetPolicy),
            1 => d().prop_map(Req::RegisterPeer),
        ];
        let many = prop::sample::select(vec![254u16, 255, 256, 257, 300]);
        let req = prop_oneof![
            600 => req,
            1 => (d(), many.clone()).prop_map(|(d, n)| Req::OpenMany { d, n }),
            1 => (d(), many).prop_map(|(d, n)| Req::CloseMany { d, n }),
            14 => d().prop_map(Req::GetManyLazy),
            14 => Just(Req::ReadLazy),
        ];
        let seq = (prop::bool::weighted(0.2), prop_oneof![3 => Just(7u8), 2 => 0u8..8], vec(req, 1..=max), prop::bool::weighted(0.4))
            .prop_map(|(file, preimport, reqs, sparse_observe)| Case::Sequential(Seq { file, preimport, reqs, sparse_observe }));
        let creq = || {
            prop_oneof![
                3 => any::<bool>().prop_map(CReq::Open),
                3 => Just(CReq::Close),
                2 => any::<bool>().prop_map(CReq::SetSync),
                3 => (0u8..3, 1u8..4).prop_map(|(k, c)| CReq::InsertLocal(k, c)),
                2 => (0u8..3, 0u8..4).prop_map(|(k, c)| CReq::InsertRemote(k, c)),
                1 => (0u8..3).prop_map(CReq::DeletePrefix),
                2 => (0u8..3).prop_map(CReq::GetExact),
                2 => Just(CReq::GetState),
            ]
        };
        let conc = (vec(creq(), 0..=3), vec(creq(), 1..=5), vec(creq(), 1..=5), prop::bool::weighted(0.3))
            .prop_map(|(pre, a, b, both_shutdown)| Case::Concurrent { pre, a, b, c: vec![], both_shutdown });
        // three clients, <= 4 requests each (the linearizability search stays below 13 operations)
        let conc3 = (vec(creq(), 0..=3), vec(creq(), 1..=4), vec(creq(), 1..=4), vec(creq(), 1..=4), prop::bool::weighted(0.3))
            .prop_map(|(pre, a, b, c, both_shutdown)| Case::Concurrent { pre, a, b, c, both_shutdown });
        let pipe = (vec(creq(), 0..=3), vec(creq(), 2..=12)).prop_map(|(pre, batch)| Case::Pipelined { pre, batch });
        let aband = (vec(creq(), 0..=3), vec((creq(), prop::bool::weighted(0.4)), 2..=14)).prop_map(|(pre, reqs)| Case::Abandoned { pre, reqs });
        prop_oneof![12 => seq, 3 => conc, 1 => conc3, 2 => pipe, 1 => aband].boxed()
    }

    fn check(ctx: &mut Ctx, c: &Case) -> Outcome {
        let mut o = Outcome::default();
        let r = match c {
            Case::Sequential(c) => {
                o.class(if c.file { "file" } else { "memory" });
                if c.sparse_observe {
                    o.class("observed-only-at-the-end");
                }
                run(ctx, c, &mut o)
            }
            Case::Concurrent { pre, a, b, c, both_shutdown } => concurrent(ctx, pre, &[a.as_slice(), b.as_slice(), c.as_slice()], *both_shutdown, &mut o),
            Case::Pipelined { pre, batch } => pipelined(ctx, pre, batch, &mut o),
            Case::Abandoned { pre, reqs } => abandoned(ctx, pre, reqs, &mut o),
        };
        verif::set_clock(None);
        if let Err(e) = r {
            if e.starts_with("harness-timeout") {
                o.failure = None;
                o.fail("C14/harness-timeout", e);
            } else {
                o.fail("C14/harness-error", e);
            }
        }
        o
    }
}

async fn observe(h: &SyncHandle, ids: &[NamespaceId], docs: &[DocModel], o: &mut Outcome, what: &str) -> R<()> {
    for (d, m) in docs.iter().enumerate() {
        let st = h.get_state(ids[d]).await;
        match (m.handles > 0, st) {
            (false, Err(_)) => {}
            (true, Ok(s)) => {
                if s.handles != m.handles || s.sync != m.sync || s.subscribers != m.subs.len() + m.dead_subs {
                    o.fail("C14/state", format!("{what}: document {d} state {:?}, model handles={} sync={} subscribers={}+{} dead", s, m.handles, m.sync, m.subs.len(), m.dead_subs));
                    return Ok(());
                }
                let got = act::dump(h, ids[d]).await?;
                if got != m.entries.dump() {
                    o.fail("C14/contents", format!("{what}: document {d} holds {} model {}", describe_all(&got), describe_all(&m.entries.dump())));
                    return Ok(());
                }
            }
            (open, st) => {
                o.fail("C14/usable-iff-open", format!("{what}: document {d} model open={open} but get_state ok={}", st.is_ok()));
                return Ok(());
            }
        }
    }
    Ok(())
}

fn run(ctx: &mut Ctx, c: &Seq, o: &mut Outcome) -> R<()> {
    let st = AnyStore::new(ctx, c.file)?;
    let AnyStore { store, path } = st;
    let ids: Vec<NamespaceId> = (0..3).map(|d| namespace(d).id()).collect();
    let res: R<()> = ctx.rt.block_on(async {
        let h = act::spawn(store);
        es(h.import_author(author(0).clone()).await)?;
        let mut docs: Vec<DocModel> = vec![DocModel::default(); 3];
        for d in 0..3u8 {
            if c.preimport & (1 << d) != 0 {
                es(h.import_namespace(namespace(d).clone().into()).await)?;
                docs[d as usize].exists = true;
            }
        }
        // channel pool: (sender, receiver)
        let mut chans: Vec<(async_channel::Sender<Event>, async_channel::Receiver<Event>)> = vec![];
        let mut opens = [0usize; 3];
        let mut closes = [0usize; 3];
        let mut hit_closed = false;
        let mut toggled = false;
        let mut acked: Vec<Vec<SignedEntry>> = vec![vec![]; 3];
        // unread reply streams: (document, was it open when the query was made, receiver, contents the document had at any
        // moment since the query was made)
        type LazyRx = irpc::channel::mpsc::Receiver<RpcResult<SignedEntry>>;
        let mut lazy: Vec<(usize, bool, LazyRx, Vec<Vec<SignedEntry>>)> = vec![];
        for (i, r) in c.reqs.iter().enumerate() {
            let now = T0 + 100 + i as u64;
            verif::set_clock(Some(now));
            let what = format!("request {i} {:?}", r);
            let before = docs.clone();
            let mut failed_request = false;
            match r {
                Req::Open { d, sync, subscribe, dead } => {
                    let du = *d as usize;
                    let mut opts = OpenOpts::default();
                    if *sync {
                        opts = opts.sync();
                    }
                    let mut ch = None;
                    if *subscribe && *dead {
                        let (tx, rx) = async_channel::bounded::<Event>(4);
                        drop(rx);
                        opts = opts.subscribe(tx);
                    } else if *subscribe {
                        let (tx, rx) = async_channel::bounded(4096);
                        opts = opts.subscribe(tx.clone());
                        chans.push((tx, rx));
                        ch = Some(chans.len() - 1);
                    }
                    let res = h.open(ids[du], opts).await;
                    if *dead && res.is_err() && docs[du].exists {
                        // refusing a subscriber that can never receive anything is acceptable; it must then change nothing
                        o.class("open-with-dead-subscriber-refused");
                        failed_request = true;
                    } else if res.is_ok() != docs[du].exists {
                        o.fail("C14/open", format!("{what}: ok={} but document exists={}", res.is_ok(), docs[du].exists));
                        break;
                    }
                    if res.is_ok() {
                        docs[du].handles += 1;
                        docs[du].sync = docs[du].sync || *sync;
                        if let Some(ch) = ch {
                            docs[du].subs.push(ch);
                        }
                        if *dead {
                            docs[du].dead_subs += 1;
                            o.class("open-with-dead-subscriber-accepted");
                        }
                        opens[du] += 1;
                    } else {
                        failed_request = true;
                    }
                }
                Req::Close(d) => {
                    let du = *d as usize;
                    let res = es(h.close(ids[du]).await)?;
                    let m = &mut docs[du];
                    if m.handles > 0 {
                        m.handles -= 1;
                        closes[du] += 1;
                        if m.handles == 0 {
                            m.sync = false;
                            m.subs.clear();
                            m.dead_subs = 0;
                        }
                    }
                    if res != (m.handles == 0) {
                        o.fail("C14/close-result", format!("{what}: returned {res}, model has {} handles left", m.handles));
                        break;
                    }
                }
                Req::SetSync(d, s) => {
                    let du = *d as usize;
                    let res = h.set_sync(ids[du], *s).await;
                    if res.is_ok() != (docs[du].handles > 0) {
                        o.fail("C14/requires-open", format!("{what}: ok={} with {} handles", res.is_ok(), docs[du].handles));
                        break;
                    }
                    if res.is_ok() {
                        if docs[du].sync != *s {
                            toggled = true;
                        }
                        docs[du].sync = *s;
                    } else {
                        failed_request = true;
                        hit_closed = true;
                    }
                }
                Req::InsertLocal { d, k, c } | Req::InsertRemote { d, k, c, .. } => {
                    let du = *d as usize;
                    let local = matches!(r, Req::InsertLocal { .. });
                    let stale = matches!(r, Req::InsertRemote { stale: true, .. });
                    let (a, ts) = if local { (0u8, now) } else { (1u8, if stale { T0 + 1 } else { now }) };
                    let e = sign(namespace(*d), &ESpec { a, k: key(*k), t: ts, c: *c });
                    let res = if local {
                        h.insert_local(ids[du], author(0).id(), key(*k).into(), e.content_hash(), e.content_len()).await
                    } else {
                        h.insert_remote(ids[du], e.clone(), [2u8; 32], ContentStatus::Missing).await
                    };
                    let usable = docs[du].handles > 0 && (local || docs[du].sync);
                    let admitted = usable && docs[du].entries.admits(&e);
                    if res.is_ok() != admitted {
                        o.fail(
                            if usable { "C14/write-result" } else if local { "C14/requires-open" } else { "C14/requires-sync" },
                            format!("{what}: ok={} ({:?}); model handles={} sync={} admits={}", res.is_ok(), res.as_ref().err().map(|e| e.to_string()), docs[du].handles, docs[du].sync, docs[du].entries.admits(&e)),
                        );
                        break;
                    }
                    if res.is_ok() {
                        docs[du].entries.apply(&e);
                        docs[du].dead_subs = 0; // the insert event prunes subscribers whose receiver is gone
                        acked[du].push(e);
                    } else {
                        failed_request = true;
                        if docs[du].handles == 0 {
                            hit_closed = true;
                        }
                    }
                }
                Req::DeletePrefix { d, k } => {
                    let du = *d as usize;
                    let e = sign(namespace(*d), &ESpec { a: 0, k: key(*k), t: now, c: 0 });
                    let res = h.delete_prefix(ids[du], author(0).id(), key(*k).into()).await;
                    let usable = docs[du].handles > 0;
                    if res.is_ok() != usable {
                        o.fail("C14/requires-open", format!("{what}: ok={} with {} handles", res.is_ok(), docs[du].handles));
                        break;
                    }
                    if let Ok(n) = res {
                        let exp = docs[du].entries.apply(&e);
                        if exp != Some(n) {
                            o.fail("C14/write-result", format!("{what}: removed {n}, model {:?}", exp));
                            break;
                        }
                        docs[du].dead_subs = 0;
                        acked[du].push(e);
                    } else {
                        failed_request = true;
                        hit_closed = true;
                    }
                }
                Req::GetExact { d, k } => {
                    let du = *d as usize;
                    let res = h.get_exact(ids[du], author(0).id(), key(*k).into(), true).await;
                    match (docs[du].handles > 0, res) {
                        (false, Err(_)) => {
                            hit_closed = true;
                            failed_request = true;
                        }
                        (true, Ok(got)) => {
                            let want = docs[du].entries.m.get(&(author(0).id().to_bytes(), key(*k))).cloned();
                            if got != want {
                                o.fail("C14/read-result", format!("{what}: {:?} model {:?}", got.as_ref().map(describe), want.as_ref().map(describe)));
                                break;
                            }
                        }
                        (open, res) => {
                            o.fail("C14/requires-open", format!("{what}: ok={} with open={open}", res.is_ok()));
                            break;
                        }
                    }
                }
                Req::GetMany(d) => {
                    let du = *d as usize;
                    let res = act::get_many(&h, ids[du], Query::all().include_empty().build()).await;
                    match (docs[du].handles > 0, res) {
                        (false, Err(_)) => {
                            hit_closed = true;
                            failed_request = true;
                        }
                        (true, Ok(got)) => {
                            if got != docs[du].entries.dump() {
                                o.fail("C14/read-result", format!("{what}: {} model {}", describe_all(&got), describe_all(&docs[du].entries.dump())));
                                break;
                            }
                        }
                        (open, res) => {
                            o.fail("C14/requires-open", format!("{what}: ok={} with open={open}", res.is_ok()));
                            break;
                        }
                    }
                }
                Req::Subscribe(d) => {
                    let du = *d as usize;
                    let (tx, rx) = async_channel::bounded(4096);
                    let res = h.subscribe(ids[du], tx.clone()).await;
                    if res.is_ok() != (docs[du].handles > 0) {
                        o.fail("C14/requires-open", format!("{what}: ok={} with {} handles", res.is_ok(), docs[du].handles));
                        break;
                    }
                    if res.is_ok() {
                        chans.push((tx, rx));
                        docs[du].subs.push(chans.len() - 1);
                    } else {
                        failed_request = true;
                        hit_closed = true;
                    }
                }
                Req::Unsubscribe(d) => {
                    let du = *d as usize;
                    let target = docs[du].subs.first().copied();
                    let tx = match target {
                        Some(t) => chans[t].0.clone(),
                        None => async_channel::bounded(1).0,
                    };
                    let res = h.unsubscribe(ids[du], tx).await;
                    if res.is_ok() != (docs[du].handles > 0) {
                        o.fail("C14/requires-open", format!("{what}: ok={} with {} handles", res.is_ok(), docs[du].handles));
                        break;
                    }
                    if res.is_ok() {
                        if let Some(t) = target {
                            docs[du].subs.retain(|x| *x != t);
                        }
                    } else {
                        failed_request = true;
                        hit_closed = true;
                    }
                }
                Req::SyncInit(d) | Req::SyncProcess(d) => {
                    let du = *d as usize;
                    let usable = docs[du].handles > 0 && docs[du].sync;
                    let ok = if matches!(r, Req::SyncInit(_)) {
                        h.sync_initial_message(ids[du]).await.is_ok()
                    } else {
                        // the initial message of an empty peer: transfers nothing into this replica
                        let mut peer = Store::memory();
                        es(peer.import_namespace(namespace(*d).clone().into()))?;
                        let m = es(es(peer.open_replica(&ids[du]))?.sync_initial_message())?;
                        h.sync_process_message(ids[du], m, [3u8; 32], Default::default()).await.is_ok()
                    };
                    if ok != usable {
                        o.fail("C14/requires-sync", format!("{what}: ok={ok}; model handles={} sync={}", docs[du].handles, docs[du].sync));
                        break;
                    }
                    if !ok {
                        failed_request = true;
                        if docs[du].handles == 0 {
                            hit_closed = true;
                        } else {
                            o.class("sync-gated-while-open");
                        }
                    }
                }
                Req::GetState(d) => {
                    let du = *d as usize;
                    let res = h.get_state(ids[du]).await;
                    if res.is_ok() != (docs[du].handles > 0) {
                        o.fail("C14/requires-open", format!("{what}: ok={} with {} handles", res.is_ok(), docs[du].handles));
                        break;
                    }
                    if res.is_err() {
                        hit_closed = true;
                        failed_request = true;
                    }
                }
                Req::Import(d) => {
                    es(h.import_namespace(namespace(*d).clone().into()).await)?;
                    docs[*d as usize].exists = true;
                }
                Req::Drop(d) => {
                    let du = *d as usize;
                    let res = h.drop_replica(ids[du]).await;
                    // drop releases one handle, then removal succeeds only if the document is closed
                    let m = &mut docs[du];
                    if m.handles > 0 {
                        m.handles -= 1;
                        if m.handles == 0 {
                            m.sync = false;
                            m.subs.clear();
                            m.dead_subs = 0;
                        }
                    }
                    let should = m.handles == 0;
                    if res.is_ok() != should {
                        o.fail("C14/drop", format!("{what}: ok={} with {} handles left", res.is_ok(), m.handles));
                        break;
                    }
                    if should {
                        m.exists = false;
                        m.entries = Model::default();
                        acked[du].clear();
                        o.class("dropped");
                    } else {
                        o.class("drop-refused-still-open");
                    }
                }
                Req::Flush => {
                    es(h.flush_store().await)?;
                }
                Req::GetManyLazy(d) => {
                    let du = *d as usize;
                    if lazy.len() < 4 {
                        let (tx, rx) = irpc::channel::mpsc::channel::<RpcResult<SignedEntry>>(1);
                        es(h.get_many(ids[du], Query::all().include_empty().build(), tx).await)?;
                        let open = docs[du].handles > 0;
                        if !open {
                            hit_closed = true;
                        }
                        lazy.push((du, open, rx, vec![docs[du].entries.dump()]));
                        o.class("query-reply-left-unread");
                    }
                }
                Req::ReadLazy => {
                    if !lazy.is_empty() {
                        let (du, open, mut rx, candidates) = lazy.remove(0);
                        let mut got = vec![];
                        let mut err = false;
                        loop {
                            match tokio::time::timeout(std::time::Duration::from_secs(30), rx.recv()).await {
                                Err(_) => return Err("harness-timeout: a reply stream did not end within 30 s although it was being read".into()),
                                Ok(Ok(Some(Ok(e)))) => got.push(e),
                                Ok(Ok(Some(Err(_)))) => {
                                    err = true;
                                    break;
                                }
                                Ok(Ok(None)) => break,
                                Ok(Err(_)) => {
                                    err = true;
                                    break;
                                }
                            }
                        }
                        if open && (err || !candidates.contains(&got)) {
                            o.fail(
                                "C14/late-read-of-a-query-reply",
                                format!(
                                    "{what}: a query on document {du} (open at that time) whose reply was read {} requests later yielded {}{}; the document held {} when the query was made and {} now",
                                    candidates.len() - 1,
                                    describe_all(&got),
                                    if err { " and then an error" } else { "" },
                                    describe_all(&candidates[0]),
                                    describe_all(candidates.last().unwrap())
                                ),
                            );
                            break;
                        }
                        if !open && (!err || !got.is_empty()) {
                            o.fail("C14/requires-open", format!("{what}: a query on a document that was not open yielded {} entries and {}", got.len(), if err { "an error" } else { "no error" }));
                            break;
                        }
                        if open && candidates.len() > 1 {
                            o.class("query-reply-read-after-later-requests");
                        }
                    }
                }
                Req::OpenMany { d, n } => {
                    let du = *d as usize;
                    o.class("crowd-of-handles(254..300-opens-in-a-row)");
                    for j in 0..*n {
                        let res = h.open(ids[du], OpenOpts::default()).await;
                        if res.is_ok() != docs[du].exists {
                            o.fail("C14/open", format!("{what}, open {j}: ok={} but document exists={}", res.is_ok(), docs[du].exists));
                            break;
                        }
                        if res.is_ok() {
                            docs[du].handles += 1;
                            opens[du] += 1;
                        } else {
                            failed_request = true;
                        }
                    }
                    if o.failed() {
                        break;
                    }
                }
                Req::CloseMany { d, n } => {
                    let du = *d as usize;
                    for j in 0..*n {
                        let res = es(h.close(ids[du]).await)?;
                        let m = &mut docs[du];
                        if m.handles > 0 {
                            m.handles -= 1;
                            closes[du] += 1;
                            if m.handles == 0 {
                                m.sync = false;
                                m.subs.clear();
                                m.dead_subs = 0;
                            }
                        }
                        if res != (m.handles == 0) {
                            o.fail("C14/close-result", format!("{what}, close {j}: returned {res}, model has {} handles left", m.handles));
                            break;
                        }
                    }
                    if o.failed() {
                        break;
                    }
                }
                Req::SetPolicy(d) | Req::RegisterPeer(d) => {
                    let du = *d as usize;
                    let res = if matches!(r, Req::SetPolicy(_)) {
                        h.set_download_policy(ids[du], iroh_docs::store::DownloadPolicy::default()).await
                    } else {
                        h.register_useful_peer(ids[du], [i as u8; 32]).await
                    };
                    if res.is_ok() != docs[du].exists {
                        o.fail("C14/settings-need-the-document", format!("{what}: ok={} but document exists={}", res.is_ok(), docs[du].exists));
                        break;
                    }
                    if res.is_err() {
                        failed_request = true;
                        o.class("failing-store-mutation");
                    }
                }
            }
            if failed_request && docs.iter().zip(before.iter()).any(|(a, b)| a.entries != b.entries || a.handles != b.handles || a.sync != b.sync || a.subs != b.subs || a.dead_subs != b.dead_subs) {
                return Err("harness bug: model changed on a failed request".into());
            }
            o.count("requests_checked_against_model", 1);
            for (du, _, _, candidates) in lazy.iter_mut() {
                let now = docs[*du].entries.dump();
                if candidates.last() != Some(&now) {
                    candidates.push(now);
                }
            }
            if c.sparse_observe && i + 1 != c.reqs.len() {
                continue;
            }
            observe(&h, &ids, &docs, o, &what).await?;
            if o.failed() {
                break;
            }
        }
        for d in 0..3 {
            if opens[d] >= 2 && closes[d] >= 2 && hit_closed && toggled {
                o.nontrivial = true;
            }
        }
        if hit_closed {
            o.class("request-on-closed-document");
        }
        if toggled {
            o.class("sync-toggled-while-open");
        }
        if (0..3).any(|d| opens[d] >= 2 && closes[d] >= 2) {
            o.class("opened>=2-and-closed>=2");
        }
        // shutdown hands back a store with every acknowledged write - also while a client sits on unread reply streams
        if !lazy.is_empty() && !o.failed() {
            o.class("shutdown-with-unread-query-replies");
        }
        let mut store = match tokio::time::timeout(std::time::Duration::from_secs(30), h.shutdown()).await {
            Ok(r) => es(r)?,
            Err(_) => {
                if lazy.is_empty() {
                    return Err("harness-timeout: shutdown was not answered within 30 s".into());
                }
                o.fail(
                    "C14/shutdown-waits-for-unread-query-replies",
                    format!("shutdown was not answered within 30 s while {} query replies (buffer of one item each) were still unread by their client: the store is never handed back", lazy.len()),
                );
                return Ok(());
            }
        };
        drop(lazy);
        if !o.failed() {
            for d in 0..3usize {
                let got = dump(&mut store, ids[d])?;
                if got != docs[d].entries.dump() {
                    o.fail("C14/shutdown-store", format!("after shutdown document {d} holds {} model {}", describe_all(&got), describe_all(&docs[d].entries.dump())));
                }
                if docs[d].exists {
                    if let Err(e) = self_consistent(&mut store, ids[d]) {
                        o.fail("C14/shutdown-store", e);
                    }
                }
            }
        }
        drop(store);
        let _ = &acked;
        Ok(())
    });
    if let Some(p) = path {
        let _ = std::fs::remove_file(p);
    }
    res
}


// ------------------------------------------------------------------------------------------------
// concurrent variant: linearizability of the recorded history w.r.t. the model

#[derive(Clone, Debug, PartialEq)]
enum Reply {
    Ok,
    Err,
    Bool(bool),
    State(usize, bool),
    Entry(Option<SignedEntry>),
    Count(usize),
}

#[derive(Clone, Debug, Default)]
struct Mini {
    handles: usize,
    sync: bool,
    entries: Model,
}

const CNOW: u64 = T0 + 3;

fn centry(local: bool, k: u8, c: u8) -> SignedEntry {
    sign(namespace(0), &ESpec { a: if local { 0 } else { 1 }, k: key(k), t: if local { CNOW } else { T0 + 1 + (c as u64 % 3) }, c })
}

/// The model's sequential semantics of one request.
fn mini_step(m: &mut Mini, r: &CReq) -> Reply {
    match r {
        CReq::Open(sync) => {
            m.handles += 1;
            m.sync = m.sync || *sync;
            Reply::Ok
        }
        CReq::Close => {
            if m.handles > 0 {
                m.handles -= 1;
                if m.handles == 0 {
                    m.sync = false;
                }
            }
            Reply::Bool(m.handles == 0)
        }
        CReq::SetSync(s) => {
            if m.handles == 0 {
                Reply::Err
            } else {
                m.sync = *s;
                Reply::Ok
            }
        }
        CReq::InsertLocal(k, c) => {
            let e = centry(true, *k, *c);
            if m.handles > 0 && m.entries.apply(&e).is_some() {
                Reply::Ok
            } else {
                Reply::Err
            }
        }
        CReq::InsertRemote(k, c) => {
            let e = centry(false, *k, *c);
            if m.handles > 0 && m.sync && m.entries.apply(&e).is_some() {
                Reply::Ok
            } else {
                Reply::Err
            }
        }
        CReq::DeletePrefix(k) => {
            let e = sign(namespace(0), &ESpec { a: 0, k: key(*k), t: CNOW, c: 0 });
            if m.handles == 0 {
                return Reply::Err;
            }
            match m.entries.apply(&e) {
                Some(n) => Reply::Count(n),
                None => Reply::Err,
            }
        }
        CReq::GetExact(k) => {
            if m.handles == 0 {
                Reply::Err
            } else {
                Reply::Entry(m.entries.m.get(&(author(0).id().to_bytes(), key(*k))).cloned())
            }
        }
        CReq::GetState => {
            if m.handles == 0 {
                Reply::Err
            } else {
                Reply::State(m.handles, m.sync)
            }
        }
    }
}

async fn real_step(h: &SyncHandle, ns: NamespaceId, r: &CReq) -> Reply {
    match r {
        CReq::Open(sync) => {
            let opts = if *sync { OpenOpts::default().sync() } else { OpenOpts::default() };
            if h.open(ns, opts).await.is_ok() {
                Reply::Ok
            } else {
                Reply::Err
            }
        }
        CReq::Close => match h.close(ns).await {
            Ok(b) => Reply::Bool(b),
            Err(_) => Reply::Err,
        },
        CReq::SetSync(s) => {
            if h.set_sync(ns, *s).await.is_ok() {
                Reply::Ok
            } else {
                Reply::Err
            }
        }
        CReq::InsertLocal(k, c) => {
            let e = centry(true, *k, *c);
            if h.insert_local(ns, author(0).id(), key(*k).into(), e.content_hash(), e.content_len()).await.is_ok() {
                Reply::Ok
            } else {
                Reply::Err
            }
        }
        CReq::InsertRemote(k, c) => {
            if h.insert_remote(ns, centry(false, *k, *c), [2u8; 32], ContentStatus::Missing).await.is_ok() {
                Reply::Ok
            } else {
                Reply::Err
            }
        }
        CReq::DeletePrefix(k) => match h.delete_prefix(ns, author(0).id(), key(*k).into()).await {
            Ok(n) => Reply::Count(n),
            Err(_) => Reply::Err,
        },
        CReq::GetExact(k) => match h.get_exact(ns, author(0).id(), key(*k).into(), true).await {
            Ok(e) => Reply::Entry(e),
            Err(_) => Reply::Err,
        },
        CReq::GetState => match h.get_state(ns).await {
            Ok(s) => Reply::State(s.handles, s.sync),
            Err(_) => Reply::Err,
        },
    }
}

#[derive(Clone, Debug)]
struct Rec {
    req: CReq,
    reply: Reply,
    invoke: u64,
    response: u64,
}

/// Wing-Gong: is there a total order, consistent with real time, under which the model gives the observed replies?
fn linearizable(start: &Mini, ops: &[Rec], done: &mut Vec<bool>, model: &Mini, final_entries: &[SignedEntry]) -> bool {
    if done.iter().all(|d| *d) {
        return model.entries.dump() == final_entries;
    }
    let _ = start;
    // candidates: pending operations that no other pending operation precedes in real time
    let min_response = ops.iter().zip(done.iter()).filter(|(_, d)| !**d).map(|(o, _)| o.response).min().unwrap();
    for i in 0..ops.len() {
        if done[i] || ops[i].invoke > min_response {
            continue;
        }
        let mut m = model.clone();
        if mini_step(&mut m, &ops[i].req) == ops[i].reply {
            done[i] = true;
            if linearizable(start, ops, done, &m, final_entries) {
                done[i] = false;
                return true;
            }
            done[i] = false;
        }
    }
    false
}

fn concurrent(ctx: &mut Ctx, pre: &[CReq], clients: &[&[CReq]], both_shutdown: bool, o: &mut Outcome) -> R<()> {
    let clients: Vec<&[CReq]> = clients.iter().copied().filter(|c| !c.is_empty()).collect();
    if clients.len() >= 3 {
        o.class("concurrent/three-clients");
    }
    use std::sync::atomic::{AtomicU64, Ordering};
    use std::sync::Arc;
    o.class("concurrent");
    verif::set_clock(Some(CNOW));
    let ns = namespace(0).id();
    let h = act::spawn(Store::memory());
    let mut model = Mini::default();
    ctx.rt.block_on(async {
        es(h.import_author(author(0).clone()).await)?;
        es(h.import_namespace(namespace(0).clone().into()).await)?;
        for r in pre {
            let got = real_step(&h, ns, r).await;
            let want = mini_step(&mut model, r);
            if got != want {
                o.fail("C14/concurrent-prefix", format!("sequential prefix: {:?} replied {:?}, model {:?}", r, got, want));
                return Ok::<(), String>(());
            }
        }
        Ok(())
    })?;
    if o.failed() {
        return Ok(());
    }
    let clock = Arc::new(AtomicU64::new(1));
    let barrier = Arc::new(std::sync::Barrier::new(clients.len()));
    let run_client = |reqs: Vec<CReq>, h: SyncHandle, clock: Arc<AtomicU64>| {
        let barrier = barrier.clone();
        std::thread::spawn(move || {
            let rt = tokio::runtime::Builder::new_current_thread().enable_all().build().expect("rt");
            rt.block_on(async move {
                let mut recs = vec![];
                for r in reqs {
                    let invoke = clock.fetch_add(1, Ordering::SeqCst);
                    let reply = real_step(&h, ns, &r).await;
                    let response = clock.fetch_add(1, Ordering::SeqCst);
                    recs.push(Rec { req: r, reply, invoke, response });
                }
                // optionally every client ends with a shutdown request of its own - once both are through with their
                // requests, so that no request meets a stopped actor
                barrier.wait();
                let store = if both_shutdown { Some(tokio::time::timeout(std::time::Duration::from_secs(20), h.shutdown()).await) } else { None };
                (recs, store)
            })
        })
    };
    let threads: Vec<_> = clients.iter().map(|c| run_client(c.to_vec(), h.clone(), clock.clone())).collect();
    let mut recs: Vec<Vec<Rec>> = vec![];
    let mut handed = vec![];
    for t in threads {
        let (r, s) = t.join().map_err(|_| "a client thread panicked".to_string())?;
        recs.push(r);
        handed.push(s);
    }
    let overlapped = (0..recs.len()).any(|i| (0..i).any(|j| recs[i].iter().any(|x| recs[j].iter().any(|y| x.invoke < y.response && y.invoke < x.response))));
    let acked_write = recs.iter().flatten().any(|r| matches!(r.req, CReq::InsertLocal(..) | CReq::InsertRemote(..) | CReq::DeletePrefix(..)) && !matches!(r.reply, Reply::Err));
    if overlapped {
        o.class("concurrent/operations-overlapped");
    }
    if overlapped && acked_write {
        o.nontrivial = true;
    }
    // final contents from the store handed back by shutdown
    let final_entries = if both_shutdown {
        o.class("concurrent/both-clients-shut-down");
        let mut stores = vec![];
        for s in handed.into_iter().flatten() {
            match s {
                Err(_) => return Err("harness-timeout: a shutdown request was not answered within 20 s".into()),
                Ok(Ok(st)) => stores.push(st),
                Ok(Err(_)) => {}
            }
        }
        if stores.len() != 1 {
            o.fail(
                "C14/shutdown-store",
                format!("{} clients asked for shutdown concurrently: {} of them were handed the store (exactly one must be, with every acknowledged write in it)", clients.len(), stores.len()),
            );
            return Ok(());
        }
        dump(&mut stores[0], ns)?
    } else {
        ctx.rt.block_on(async {
            let mut store = es(h.shutdown().await)?;
            dump(&mut store, ns)
        })?
    };
    let ops: Vec<Rec> = recs.iter().flatten().cloned().collect();
    let mut done = vec![false; ops.len()];
    if !linearizable(&model, &ops, &mut done, &model, &final_entries) {
        o.fail(
            "C14/not-linearizable",
            format!(
                "no order of the clients' operations that respects real time makes the model produce these replies and final contents {}: {}",
                describe_all(&final_entries),
                recs.iter()
                    .enumerate()
                    .map(|(i, rs)| format!("client {} = {:?}", i, rs.iter().map(|r| (format!("{:?}", r.req), format!("{:?}", r.reply), r.invoke, r.response)).collect::<Vec<_>>()))
                    .collect::<Vec<_>>()
                    .join("; ")
            ),
        );
    }
    Ok(())
}

// ------------------------------------------------------------------------------------------------
// pipelined variant: replies arrive in request order and reflect all earlier requests

fn pipelined(ctx: &mut Ctx, pre: &[CReq], batch: &[CReq], o: &mut Outcome) -> R<()> {
    o.class("pipelined");
    verif::set_clock(Some(CNOW));
    let ns = namespace(0).id();
    let h = act::spawn(Store::memory());
    let mut model = Mini::default();
    let res: R<()> = ctx.rt.block_on(async {
        es(h.import_author(author(0).clone()).await)?;
        es(h.import_namespace(namespace(0).clone().into()).await)?;
        for r in pre {
            let got = real_step(&h, ns, r).await;
            let want = mini_step(&mut model, r);
            if got != want {
                o.fail("C14/concurrent-prefix", format!("sequential prefix: {:?} replied {:?}, model {:?}", r, got, want));
                return Ok(());
            }
        }
        // join_all polls the futures in order; the first poll of each request enqueues it (the inbox holds 1024 requests),
        // so the actor sees them in issue order while no reply has been awaited yet
        let futs: Vec<_> = batch.iter().map(|r| real_step(&h, ns, r)).collect();
        let got = futures_util::future::join_all(futs).await;
        let before = model.clone();
        let mut want = vec![];
        for r in batch {
            want.push(mini_step(&mut model, r));
        }
        // does some reply depend on an earlier request of the batch? (compare with executing each request alone)
        let depends = batch.iter().zip(want.iter()).any(|(r, w)| mini_step(&mut before.clone(), r) != *w);
        if depends {
            o.nontrivial = true;
            o.class("pipelined/reply-depends-on-earlier-request-of-the-batch");
        }
        o.count("requests_checked_against_model", batch.len() as u64);
        if got != want {
            let first = got.iter().zip(want.iter()).position(|(g, w)| g != w).unwrap_or(0);
            o.fail(
                "C14/pipelined-replies",
                format!("batch {:?} issued without awaiting: reply {first} is {:?}, sequential execution in issue order gives {:?} (all replies {:?})", batch, got[first], want[first], got),
            );
            return Ok(());
        }
        let mut store = es(h.shutdown().await)?;
        let final_entries = dump(&mut store, ns)?;
        if final_entries != model.entries.dump() {
            o.fail("C14/pipelined-contents", format!("after the batch the store holds {} model {}", describe_all(&final_entries), describe_all(&model.entries.dump())));
        }
        Ok(())
    });
    res
}

// ------------------------------------------------------------------------------------------------
// abandoned requests: enqueued, then the caller goes away

fn abandoned(ctx: &mut Ctx, pre: &[CReq], reqs: &[(CReq, bool)], o: &mut Outcome) -> R<()> {
    use std::future::Future;
    o.class("abandoned-requests");
    verif::set_clock(Some(CNOW));
    let ns = namespace(0).id();
    let h = act::spawn(Store::memory());
    let mut model = Mini::default();
    ctx.rt.block_on(async {
        es(h.import_author(author(0).clone()).await)?;
        es(h.import_namespace(namespace(0).clone().into()).await)?;
        for r in pre {
            let got = real_step(&h, ns, r).await;
            let want = mini_step(&mut model, r);
            if got != want {
                o.fail("C14/concurrent-prefix", format!("sequential prefix: {:?} replied {:?}, model {:?}", r, got, want));
                return Ok::<(), String>(());
            }
        }
        let mut gave_up_on_a_write = false;
        for (i, (r, abandon)) in reqs.iter().enumerate() {
            if *abandon {
                // first poll: the request is put into the actor's inbox; then the caller goes away
                let mut f = Box::pin(real_step(&h, ns, r));
                std::future::poll_fn(|cx| {
                    let _ = f.as_mut().poll(cx);
                    std::task::Poll::Ready(())
                })
                .await;
                drop(f);
                let _ = mini_step(&mut model, r);
                if matches!(r, CReq::InsertLocal(..) | CReq::InsertRemote(..) | CReq::DeletePrefix(..) | CReq::Open(..) | CReq::Close) {
                    gave_up_on_a_write = true;
                }
            } else {
                let got = real_step(&h, ns, r).await;
                let want = mini_step(&mut model, r);
                o.count("requests_checked_against_model", 1);
                if got != want {
                    o.fail(
                        "C14/reply-after-abandoned-requests",
                        format!("request {i} {:?} of {:?} (true = abandoned right after being enqueued) replied {:?}, sequential execution of everything enqueued so far gives {:?}", r, reqs, got, want),
                    );
                    return Ok(());
                }
            }
        }
        if gave_up_on_a_write {
            o.nontrivial = true;
            o.class("abandoned-requests/a-state-changing-request-was-abandoned");
        }
        // what the actor holds in the end
        match h.get_state(ns).await {
            Ok(s) => {
                if model.handles == 0 || s.handles != model.handles || s.sync != model.sync {
                    o.fail("C14/state", format!("after {:?}: state {:?}, model handles={} sync={}", reqs, s, model.handles, model.sync));
                    return Ok(());
                }
            }
            Err(_) => {
                if model.handles != 0 {
                    o.fail("C14/state", format!("after {:?}: the document is closed, model handles={}", reqs, model.handles));
                    return Ok(());
                }
            }
        }
        let mut store = es(h.shutdown().await)?;
        let final_entries = dump(&mut store, ns)?;
        if final_entries != model.entries.dump() {
            o.fail("C14/shutdown-store", format!("after {:?} the store holds {} model {}", reqs, describe_all(&final_entries), describe_all(&model.entries.dump())));
        }
        Ok(())
    })
}
