//! C16 Removing a document erases it completely and only it.

use std::collections::{BTreeMap, BTreeSet};

use iroh_docs::{
    store::{DownloadPolicy, FilterKind, OpenError},
    verif, Capability, ContentStatus, NamespaceId,
};
use proptest::{collection::vec, prelude::*};
use serde::{Deserialize, Serialize};

use crate::{
    common::*,
    engine::{Ctx, Outcome, Prop, Tier},
    gen::{egen, pools, to_espec, EGen, Pools},
    wire::forge_entry,
};

pub struct C16;

#[derive(Serialize, Deserialize, Clone, Debug)]
pub enum Step {
    Write(u8, EGen),
    Settings(u8, u8),
    /// remove while closed: must succeed
    Remove(u8),
    /// remove while the document is open: must be refused and change nothing
    RemoveWhileOpen(u8),
    Recreate(u8),
    Reopen,
}

#[derive(Serialize, Deserialize, Clone, Debug)]
pub struct Case {
    pub file: bool,
    /// raw rows: namespace ids are synthetic byte-order neighbours, rows are written unvalidated
    pub raw: bool,
    pub docs: Vec<u8>,
    pub pools: Pools,
    pub steps: Vec<Step>,
    /// every step goes through a store actor (`SyncHandle`: open / insert_remote / drop_replica / import ...); the actor is
    /// stopped after the step and the store it hands back is observed directly
    #[serde(default)]
    pub via_actor: bool,
}

/// Synthetic namespace ids that are neighbours in byte order.
fn raw_ids() -> Vec<[u8; 32]> {
    let x = [0x55u8; 32];
    let mut x1 = x;
    x1[31] += 1;
    let mut xm = x;
    xm[31] -= 1;
    let mut y = [0x66u8; 32];
    y[31] = 0xFF;
    y[30] = 0xFF;
    let mut y1 = [0x66u8; 32];
    y1[29] = 0x67;
    y1[30] = 0;
    y1[31] = 0;
    let ff = [0xFFu8; 32];
    let mut ffm = ff;
    ffm[31] = 0xFE;
    let zero = [0u8; 32];
    vec![x, x1, xm, y, y1, ff, ffm, zero]
}

impl Prop for C16 {
    type Case = Case;
    const ID: &'static str = "C16";

    fn rule() -> String {
        "stores with 2..=4 documents (pool ids incl. one ending in 0xFF / starting 0xFF / 0x00, or - raw-rows sub-generator - synthetic \
         ids X-1, X, X+1, ..FFFF, its carry successor, FF..FF, FF..FE, 00..00 written as unvalidated rows) with entries by shared \
         authors, heads, peers and policies; histories of writes, settings, removal (closed: must succeed; open: must be refused), \
         re-creation and reopen; after every step every document's full observable dump (both query paths, heads, peers, policy, \
         listed kind) is compared: only the targeted document may change, a removed document equals the empty document and cannot \
         be opened, and content_hashes() equals the hashes of all entries held; non-trivial = >= 2 documents with data, the removed \
         one a byte-order neighbour of a kept one or ending in 0xFF, followed by re-creation; distinct by serialised case"
            .into()
    }

    fn cases(tier: Tier) -> u64 {
        tier.pick(40_000, 1_000_000)
    }

    fn strategy(tier: Tier) -> BoxedStrategy<Case> {
        let max = tier.pick(24, 60);
        let step = prop_oneof![
            8 => (0u8..4, egen()).prop_map(|(d, e)| Step::Write(d, e)),
            2 => (0u8..4, 0u8..4).prop_map(|(d, p)| Step::Settings(d, p)),
            3 => (0u8..4).prop_map(Step::Remove),
            1 => (0u8..4).prop_map(Step::RemoveWhileOpen),
            4 => (0u8..4).prop_map(Step::Recreate),
            1 => Just(Step::Reopen),
        ];
        // document sets: mostly families of byte-order neighbours (raw) / sets containing the id ending in 0xFF (validated)
        let docs = prop_oneof![
            3 => prop::sample::select(vec![vec![2u8, 0, 1], vec![0, 1], vec![3, 4], vec![6, 5], vec![5, 7, 6], vec![3, 0], vec![3, 4, 5, 0]]),
            1 => vec(0u8..8, 2..=4),
        ];
        (prop::bool::weighted(0.25), prop::bool::weighted(0.4), docs, pools(5), vec(step, 1..=max), prop::bool::weighted(0.3))
            .prop_map(|(file, raw, docs, pools, steps, via_actor)| Case { file, raw, docs, pools, steps, via_actor: via_actor && !raw })
            .boxed()
    }

    fn check(ctx: &mut Ctx, c: &Case) -> Outcome {
        let mut o = Outcome::default();
        o.class(if c.raw { "raw-rows" } else { "validated" });
        if c.via_actor && !c.raw {
            o.class("via-actor");
        }
        let r = check(ctx, c, &mut o);
        verif::set_clock(None);
        if let Err(e) = r {
            o.fail("C16/harness-error", e);
        }
        o
    }

    fn assumptions() -> Vec<String> {
        vec!["the raw-rows sub-generator creates states no validated path can create (unsigned rows under arbitrary namespace ids); it only exercises range-bound arithmetic, and its cases carry the class 'raw-rows'".into()]
    }
}

fn empty_doc(kind: Option<&str>) -> DocDump {
    DocDump {
        entries: vec![],
        by_key: vec![],
        heads: BTreeMap::new(),
        peers: None,
        policy: format!("{:?}", DownloadPolicy::default()),
        kind: kind.map(|s| s.to_string()),
    }
}

fn neighbours(a: &[u8; 32], b: &[u8; 32]) -> bool {
    // b == a + 1 or a == b + 1 as 256-bit big-endian numbers
    fn inc(x: &[u8; 32]) -> Option<[u8; 32]> {
        let mut v = *x;
        for i in (0..32).rev() {
            if v[i] != 0xFF {
                v[i] += 1;
                return Some(v);
            }
            v[i] = 0;
        }
        None
    }
    inc(a).as_ref() == Some(b) || inc(b).as_ref() == Some(a)
}

fn check(ctx: &mut Ctx, c: &Case, o: &mut Outcome) -> R<()> {
    let keys = c.pools.keys();
    let authors = c.pools.authors();
    // distinct documents
    let mut slots: Vec<u8> = vec![];
    for d in &c.docs {
        let d = if c.raw { *d % 8 } else { *d % N_NAMESPACES as u8 };
        if !slots.contains(&d) {
            slots.push(d);
        }
    }
    if slots.len() < 2 {
        slots.push((slots[0] + 1) % if c.raw { 8 } else { N_NAMESPACES as u8 });
    }
    let raw = raw_ids();
    let ids: Vec<NamespaceId> = slots
        .iter()
        .map(|s| if c.raw { NamespaceId::from(&raw[*s as usize]) } else { namespace(*s).id() })
        .collect();
    let cap = |i: usize| -> Capability {
        if c.raw {
            Capability::Read(ids[i])
        } else {
            Capability::Write(namespace(slots[i]).clone())
        }
    };
    let kind = if c.raw { "Read" } else { "Write" };
    let mut st = AnyStore::new(ctx, c.file)?;
    verif::set_clock(Some(T0 + 3));
    for i in 0..ids.len() {
        es(st.store.import_namespace(cap(i)))?;
    }
    let mut exists = vec![true; ids.len()];
    let mut expected: Vec<DocDump> = (0..ids.len()).map(|_| empty_doc(Some(kind))).collect();
    let mut removed_interesting: Vec<bool> = vec![false; ids.len()];
    for (n, s) in c.steps.iter().enumerate() {
        let mut target: Option<usize> = None;
        if c.via_actor && !c.raw && !matches!(s, Step::Reopen) {
            // the same step through a store actor; afterwards the actor is stopped and hands the store back
            let store = std::mem::replace(&mut st.store, iroh_docs::store::Store::memory());
            let h = crate::act::spawn(store);
            let r: R<()> = ctx.rt.block_on(actor_step(&h, n, s, &ids, &slots, &authors, &keys, &mut exists, &mut expected, &mut removed_interesting, &mut target, kind, o));
            st.store = ctx.rt.block_on(async { es(h.shutdown().await) })?;
            r?;
            if o.failed() {
                break;
            }
        } else {
        match s {
            Step::Write(d, e) => {
                let d = *d as usize % ids.len();
                target = Some(d);
                if exists[d] {
                    let spec = to_espec(e, &authors, &keys);
                    if c.raw {
                        let (hash, len) = content(spec.c);
                        let fe = forge_entry(&[1u8; 64], &[2u8; 64], ids[d].as_bytes(), author(spec.a).id().as_bytes(), &spec.k, len, hash.as_bytes(), spec.t)?;
                        es(verif::store_put(&mut st.store, fe))?;
                    } else {
                        let se = sign(namespace(slots[d]), &spec);
                        let _ = ctx.rt.block_on(async {
                            let mut r = es(st.store.open_replica(&ids[d]))?;
                            Ok::<_, String>(r.insert_remote_entry(se, [1u8; 32], ContentStatus::Missing).await)
                        })?;
                        st.store.close_replica(ids[d]);
                    }
                }
            }
            Step::Settings(d, p) => {
                let d = *d as usize % ids.len();
                target = Some(d);
                let r1 = st.store.register_useful_peer(ids[d], [*p + 1; 32]);
                let r2 = st.store.set_download_policy(&ids[d], DownloadPolicy::NothingExcept(vec![FilterKind::Exact(vec![*p].into())]));
                if (r1.is_ok() || r2.is_ok()) != exists[d] {
                    o.fail("C16/settings-on-removed", format!("step {n}: settings on a document that {} succeeded={:?}/{:?}", if exists[d] { "exists" } else { "was removed" }, r1.is_ok(), r2.is_ok()));
                    break;
                }
            }
            Step::Remove(d) => {
                let d = *d as usize % ids.len();
                target = Some(d);
                let had_data = !expected[d].entries.is_empty();
                let res = st.store.remove_replica(&ids[d]);
                if let Err(e) = res {
                    o.fail("C16/remove-closed-failed", format!("step {n}: removing a closed document failed: {e:?}"));
                    break;
                }
                if exists[d] && had_data {
                    let others_with_data = (0..ids.len()).filter(|j| *j != d && !expected[*j].entries.is_empty()).count();
                    let nb = (0..ids.len()).any(|j| j != d && exists[j] && neighbours(ids[d].as_bytes(), ids[j].as_bytes()));
                    if others_with_data >= 1 && (nb || ids[d].as_bytes()[31] == 0xFF) {
                        removed_interesting[d] = true;
                        o.class("removed-neighbour-or-ff");
                    }
                    o.class("removed-with-data");
                }
                exists[d] = false;
                expected[d] = empty_doc(None);
                match st.store.open_replica(&ids[d]) {
                    Err(OpenError::NotFound) => {}
                    other => {
                        o.fail("C16/removed-still-opens", format!("step {n}: opening a removed document: {:?}", other.map(|_| "opened").map_err(|e| e.to_string())));
                        break;
                    }
                }
            }
            Step::RemoveWhileOpen(d) => {
                let d = *d as usize % ids.len();
                if exists[d] {
                    let opened = st.store.open_replica(&ids[d]).is_ok();
                    let res = st.store.remove_replica(&ids[d]);
                    st.store.close_replica(ids[d]);
                    if opened && res.is_ok() {
                        o.fail("C16/removed-while-open", format!("step {n}: remove_replica succeeded on an open document"));
                        break;
                    }
                    o.class("refused-while-open");
                }
            }
            Step::Recreate(d) => {
                let d = *d as usize % ids.len();
                target = Some(d);
                if !exists[d] {
                    es(st.store.import_namespace(cap(d)))?;
                    exists[d] = true;
                    expected[d] = empty_doc(Some(kind));
                    let got = doc_dump(&mut st.store, ids[d])?;
                    if got != expected[d] {
                        o.fail("C16/recreated-not-empty", format!("step {n}: re-created document shows {}", describe_doc(&got)));
                        break;
                    }
                    if removed_interesting[d] {
                        o.nontrivial = true;
                        o.class("recreated-after-interesting-removal");
                    }
                }
            }
            Step::Reopen => {
                st = st.reopen()?;
            }
        }
        }
        if o.failed() {
            break;
        }
        // every document: only the target may have changed
        let mut all_hashes: BTreeSet<[u8; 32]> = BTreeSet::new();
        for j in 0..ids.len() {
            let got = doc_dump(&mut st.store, ids[j])?;
            let writes = matches!(s, Step::Write(..) | Step::Settings(..));
            if Some(j) == target && writes && exists[j] {
                expected[j] = got.clone();
            } else if got != expected[j] {
                let what = if Some(j) == target { "the targeted document is not what it must be" } else { "a document that was not targeted changed" };
                o.fail(
                    if Some(j) == target { "C16/target-state" } else { "C16/other-document-changed" },
                    format!("step {n} {:?}: {what}: document {} now {} expected {}", s, hex::encode(&ids[j].as_bytes()[..4]), describe_doc(&got), describe_doc(&expected[j])),
                );
                break;
            }
            for e in &got.entries {
                all_hashes.insert(*e.content_hash().as_bytes());
            }
            if got.entries.len() != got.by_key.len() {
                o.fail("C16/paths", format!("step {n}: document {j} author-key path has {} entries, key-author path {}", got.entries.len(), got.by_key.len()));
                break;
            }
        }
        if o.failed() {
            break;
        }
        let mut reported: BTreeSet<[u8; 32]> = BTreeSet::new();
        for h in es(st.store.content_hashes())? {
            reported.insert(*es(h)?.as_bytes());
        }
        if reported != all_hashes {
            o.fail("C16/content-hashes", format!("step {n} {:?}: content_hashes() reports {} hashes, the documents hold {}", s, reported.len(), all_hashes.len()));
            break;
        }
    }
    st.cleanup();
    Ok(())
}

/// One step of the history through a store actor (validated paths only).
#[allow(clippy::too_many_arguments)]
async fn actor_step(
    h: &iroh_docs::actor::SyncHandle,
    n: usize,
    s: &Step,
    ids: &[NamespaceId],
    slots: &[u8],
    authors: &[u8],
    keys: &[Vec<u8>],
    exists: &mut [bool],
    expected: &mut [DocDump],
    removed_interesting: &mut [bool],
    target: &mut Option<usize>,
    kind: &'static str,
    o: &mut Outcome,
) -> R<()> {
    use iroh_docs::actor::OpenOpts;
    match s {
        Step::Write(d, e) => {
            let d = *d as usize % ids.len();
            *target = Some(d);
            if exists[d] {
                let se = sign(namespace(slots[d]), &to_espec(e, authors, keys));
                es(h.open(ids[d], OpenOpts::default().sync()).await)?;
                let _ = h.insert_remote(ids[d], se, [1u8; 32], ContentStatus::Missing).await;
                let _ = es(h.close(ids[d]).await)?;
            }
        }
        Step::Settings(d, p) => {
            let d = *d as usize % ids.len();
            *target = Some(d);
            let r1 = h.register_useful_peer(ids[d], [*p + 1; 32]).await;
            let r2 = h.set_download_policy(ids[d], DownloadPolicy::NothingExcept(vec![FilterKind::Exact(vec![*p].into())])).await;
            if (r1.is_ok() || r2.is_ok()) != exists[d] {
                o.fail("C16/settings-on-removed", format!("step {n} (actor): settings on a document that {} succeeded={:?}/{:?}", if exists[d] { "exists" } else { "was removed" }, r1.is_ok(), r2.is_ok()));
            }
        }
        Step::Remove(d) => {
            let d = *d as usize % ids.len();
            *target = Some(d);
            let had_data = !expected[d].entries.is_empty();
            if let Err(e) = h.drop_replica(ids[d]).await {
                o.fail("C16/remove-closed-failed", format!("step {n} (actor): dropping a closed document failed: {e:?}"));
                return Ok(());
            }
            if exists[d] && had_data {
                let others_with_data = (0..ids.len()).filter(|j| *j != d && !expected[*j].entries.is_empty()).count();
                let nb = (0..ids.len()).any(|j| j != d && exists[j] && neighbours(ids[d].as_bytes(), ids[j].as_bytes()));
                if others_with_data >= 1 && (nb || ids[d].as_bytes()[31] == 0xFF) {
                    removed_interesting[d] = true;
                    o.class("removed-neighbour-or-ff");
                }
                o.class("removed-with-data");
            }
            exists[d] = false;
            expected[d] = empty_doc(None);
            if h.open(ids[d], OpenOpts::default()).await.is_ok() {
                o.fail("C16/removed-still-opens", format!("step {n} (actor): a removed document can still be opened"));
            }
        }
        Step::RemoveWhileOpen(d) => {
            let d = *d as usize % ids.len();
            if exists[d] {
                // two handles: drop_replica releases one and must then be refused because the other is still open
                es(h.open(ids[d], OpenOpts::default()).await)?;
                es(h.open(ids[d], OpenOpts::default().sync()).await)?;
                let res = h.drop_replica(ids[d]).await;
                if res.is_ok() {
                    o.fail("C16/removed-while-open", format!("step {n} (actor): drop_replica succeeded although a handle of the document was still open"));
                    return Ok(());
                }
                let _ = h.close(ids[d]).await;
                let _ = h.close(ids[d]).await;
                o.class("refused-while-open");
                o.class("refused-while-open(actor, second handle)");
            }
        }
        Step::Recreate(d) => {
            let d = *d as usize % ids.len();
            *target = Some(d);
            if !exists[d] {
                es(h.import_namespace(Capability::Write(namespace(slots[d]).clone())).await)?;
                exists[d] = true;
                expected[d] = empty_doc(Some(kind));
                if removed_interesting[d] {
                    o.nontrivial = true;
                    o.class("recreated-after-interesting-removal");
                }
            }
        }
        Step::Reopen => {}
    }
    Ok(())
}
