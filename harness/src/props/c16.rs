//! C16 Removing a document erases it completely and only it.

use std::collections::{BTreeMap, BTreeSet};

use iroh_docs::{
    store::{DownloadPolicy, FilterKind, OpenError},
    verif, Capability, ContentStatus, NamespaceId,
};
use proptest::{collection::vec, prelude::*};
use serde::{Deserialize, Serialize};

use crate::{
    common::*,
    engine::{Ctx, Outcome, Prop, Tier},
    gen::{egen, pools, to_espec, EGen, Pools},
    wire::forge_entry,
};

pub struct C16;

#[derive(Serialize, Deserialize, Clone, Debug)]
pub enum Step {
    Write(u8, EGen),
    Settings(u8, u8),
    /// remove while closed: must succeed
    Remove(u8),
    /// remove while the document is open: must be refused and change nothing
    RemoveWhileOpen(u8),
    Recreate(u8),
    Reopen,
}

#[derive(Serialize, Deserialize, Clone, Debug)]
pub struct Case {
    pub file: bool,
    /// raw rows: namespace ids are synthetic byte-order neighbours, rows are written unvalidated
    pub raw: bool,
    pub docs: Vec<u8>,
    pub pools: Pools,
    pub steps: Vec<Step>,
    /// every step goes through a store actor (`SyncHandle`: open / insert_remote / drop_replica / import ...); the actor is
    /// stopped after the step and the store it hands back is observed directly
    #[serde(default)]
    pub via_actor: bool,
    /// engine-level sub-case: a real `Docs` engine (endpoint, gossip, blob store) with a GC protection handler; after every
    /// step the blob store's garbage collector asks which hashes to protect
    #[serde(default)]
    pub gc: Option<Vec<GcStep>>,
    /// a crowd of bystander documents (each with one entry, every fifth with a policy and a remembered peer) imported before
    /// the history: they must be listed and unchanged at the end, whatever was removed meanwhile
    #[serde(default)]
    pub crowd_docs: u16,
}

fn crowd_doc(i: u16) -> iroh_docs::NamespaceSecret {
    iroh_docs::NamespaceSecret::from_bytes(blake3::hash(format!("crowd-doc-{i}").as_bytes()).as_bytes())
}

#[derive(Serialize, Deserialize, Clone, Debug)]
pub enum GcStep {
    Create,
    /// (document, key selector, content selector)
    Set(u8, u8, u8),
    /// prefix deletion (document, key selector)
    Del(u8, u8),
    /// close and drop the document
    DropDoc(u8),
    /// the docs protocol is shut down (what `Router::shutdown` does); the blob store and its GC live on
    Shutdown,
}

/// Synthetic namespace ids that are neighbours in byte order.
fn raw_ids() -> Vec<[u8; 32]> {
    let x = [0x55u8; 32];
    let mut x1 = x;
    x1[31] += 1;
    let mut xm = x;
    xm[31] -= 1;
    let mut y = [0x66u8; 32];
    y[31] = 0xFF;
    y[30] = 0xFF;
    let mut y1 = [0x66u8; 32];
    y1[29] = 0x67;
    y1[30] = 0;
    y1[31] = 0;
    let ff = [0xFFu8; 32];
    let mut ffm = ff;
    ffm[31] = 0xFE;
    let zero = [0u8; 32];
    vec![x, x1, xm, y, y1, ff, ffm, zero]
}

impl Prop for C16 {
    type Case = Case;
    const ID: &'static str = "C16";

    fn rule() -> String {
        "stores with 2..=4 documents (pool ids incl. one ending in 0xFF / starting 0xFF / 0x00, or - raw-rows sub-generator - synthetic \
         ids X-1, X, X+1, ..FFFF, its carry successor, FF..FF, FF..FE, 00..00 written as unvalidated rows) with entries by shared \
         authors, heads, peers and policies; histories of writes, settings, removal (closed: must succeed; open: must be refused), \
         re-creation and reopen; after every step every document's full observable dump (both query paths, heads, peers, policy, \
         listed kind) is compared: only the targeted document may change, a removed document equals the empty document and cannot \
         be opened, and content_hashes() equals the hashes of all entries held; non-trivial = >= 2 documents with data, the removed \
         one a byte-order neighbour of a kept one or ending in 0xFF, followed by re-creation; distinct by serialised case"
            .into()
    }

    fn cases(tier: Tier) -> u64 {
        tier.pick(40_000, 1_000_000)
    }

    fn strategy(tier: Tier) -> BoxedStrategy<Case> {
        let max = tier.pick(24, 60);
        let step = prop_oneof![
            8 => (0u8..4, egen()).prop_map(|(d, e)| Step::Write(d, e)),
            2 => (0u8..4, 0u8..4).prop_map(|(d, p)| Step::Settings(d, p)),
            3 => (0u8..4).prop_map(Step::Remove),
            1 => (0u8..4).prop_map(Step::RemoveWhileOpen),
            4 => (0u8..4).prop_map(Step::Recreate),
            1 => Just(Step::Reopen),
        ];
        // document sets: mostly families of byte-order neighbours (raw) / sets containing the id ending in 0xFF (validated)
        let docs = prop_oneof![
            3 => prop::sample::select(vec![vec![2u8, 0, 1], vec![0, 1], vec![3, 4], vec![6, 5], vec![5, 7, 6], vec![3, 0], vec![3, 4, 5, 0]]),
            1 => vec(0u8..8, 2..=4),
        ];
        let gcstep = prop_oneof![
            2 => Just(GcStep::Create),
            6 => (0u8..3, 0u8..5, 0u8..4).prop_map(|(d, k, c)| GcStep::Set(d, k, c)),
            2 => (0u8..3, 0u8..5).prop_map(|(d, k)| GcStep::Del(d, k)),
            1 => (0u8..3).prop_map(GcStep::DropDoc),
            1 => Just(GcStep::Shutdown),
        ];
        let gc = prop::option::weighted(0.02, vec(gcstep, 2..=10));
        let crowd = prop_oneof![250 => Just(0u16), 1 => prop::sample::select(vec![127u16, 128, 255, 256, 257, 300])];
        (prop::bool::weighted(0.25), prop::bool::weighted(0.4), docs, pools(5), vec(step, 1..=max), prop::bool::weighted(0.3), gc, crowd)
            .prop_map(|(file, raw, docs, pools, steps, via_actor, gc, crowd_docs)| {
                if gc.is_some() {
                    return Case { file: false, raw: false, docs: vec![0, 1], pools, steps: vec![], via_actor: false, gc, crowd_docs: 0 };
                }
                Case { file, raw, docs, pools, steps, via_actor: via_actor && !raw, gc: None, crowd_docs: if raw { 0 } else { crowd_docs } }
            })
            .boxed()
    }

    fn check(ctx: &mut Ctx, c: &Case) -> Outcome {
        let mut o = Outcome::default();
        if let Some(steps) = &c.gc {
            let r = gc_protection(ctx, steps, &mut o);
            verif::set_clock(None);
            if let Err(e) = r {
                if e.starts_with("harness-timeout") {
                    o.fail("C16/harness-timeout", e);
                } else {
                    o.fail("C16/harness-error", e);
                }
            }
            return o;
        }
        o.class(if c.raw { "raw-rows" } else { "validated" });
        if c.via_actor && !c.raw {
            o.class("via-actor");
        }
        let r = check(ctx, c, &mut o);
        verif::set_clock(None);
        if let Err(e) = r {
            o.fail("C16/harness-error", e);
        }
        o
    }

    fn assumptions() -> Vec<String> {
        vec!["the raw-rows sub-generator creates states no validated path can create (unsigned rows under arbitrary namespace ids); it only exercises range-bound arithmetic, and its cases carry the class 'raw-rows'".into()]
    }
}

fn empty_doc(kind: Option<&str>) -> DocDump {
    DocDump {
        entries: vec![],
        by_key: vec![],
        heads: BTreeMap::new(),
        peers: None,
        policy: format!("{:?}", DownloadPolicy::default()),
        kind: kind.map(|s| s.to_string()),
    }
}

fn neighbours(a: &[u8; 32], b: &[u8; 32]) -> bool {
    // b == a + 1 or a == b + 1 as 256-bit big-endian numbers
    fn inc(x: &[u8; 32]) -> Option<[u8; 32]> {
        let mut v = *x;
        for i in (0..32).rev() {
            if v[i] != 0xFF {
                v[i] += 1;
                return Some(v);
            }
            v[i] = 0;
        }
        None
    }
    inc(a).as_ref() == Some(b) || inc(b).as_ref() == Some(a)
}

fn check(ctx: &mut Ctx, c: &Case, o: &mut Outcome) -> R<()> {
    let keys = c.pools.keys();
    let authors = c.pools.authors();
    // distinct documents
    let mut slots: Vec<u8> = vec![];
    for d in &c.docs {
        let d = if c.raw { *d % 8 } else { *d % N_NAMESPACES as u8 };
        if !slots.contains(&d) {
            slots.push(d);
        }
    }
    if slots.len() < 2 {
        slots.push((slots[0] + 1) % if c.raw { 8 } else { N_NAMESPACES as u8 });
    }
    let raw = raw_ids();
    let ids: Vec<NamespaceId> = slots
        .iter()
        .map(|s| if c.raw { NamespaceId::from(&raw[*s as usize]) } else { namespace(*s).id() })
        .collect();
    let cap = |i: usize| -> Capability {
        if c.raw {
            Capability::Read(ids[i])
        } else {
            Capability::Write(namespace(slots[i]).clone())
        }
    };
    let kind = if c.raw { "Read" } else { "Write" };
    let mut st = AnyStore::new(ctx, c.file)?;
    verif::set_clock(Some(T0 + 3));
    for i in 0..ids.len() {
        es(st.store.import_namespace(cap(i)))?;
    }
    // the crowd of bystander documents
    let crowd_ids: Vec<NamespaceId> = (0..c.crowd_docs).map(|i| crowd_doc(i).id()).collect();
    for i in 0..c.crowd_docs {
        let sec = crowd_doc(i);
        es(st.store.import_namespace(Capability::Write(sec.clone())))?;
        let e = sign(&sec, &ESpec { a: authors[0], k: vec![b'k', i as u8], t: T0 + 1, c: 1 });
        ctx.rt.block_on(async {
            let mut r = es(st.store.open_replica(&sec.id()))?;
            es(r.insert_remote_entry(e, [1u8; 32], ContentStatus::Missing).await)?;
            Ok::<(), String>(())
        })?;
        st.store.close_replica(sec.id());
        if i % 5 == 0 {
            es(st.store.register_useful_peer(sec.id(), [9u8; 32]))?;
            es(st.store.set_download_policy(&sec.id(), DownloadPolicy::NothingExcept(vec![FilterKind::Exact(vec![i as u8].into())])))?;
        }
    }
    let crowd_before = store_dump(&mut st.store, &crowd_ids)?;
    if c.crowd_docs > 0 {
        o.class("crowd-of-bystander-documents(127..300)");
    }
    let mut exists = vec![true; ids.len()];
    let mut expected: Vec<DocDump> = (0..ids.len()).map(|_| empty_doc(Some(kind))).collect();
    let mut removed_interesting: Vec<bool> = vec![false; ids.len()];
    for (n, s) in c.steps.iter().enumerate() {
        let mut target: Option<usize> = None;
        if c.via_actor && !c.raw && !matches!(s, Step::Reopen) {
            // the same step through a store actor; afterwards the actor is stopped and hands the store back
            let store = std::mem::replace(&mut st.store, iroh_docs::store::Store::memory());
            let h = crate::act::spawn(store);
            let r: R<()> = ctx.rt.block_on(actor_step(&h, n, s, &ids, &slots, &authors, &keys, &mut exists, &mut expected, &mut removed_interesting, &mut target, kind, o));
            st.store = ctx.rt.block_on(async { es(h.shutdown().await) })?;
            r?;
            if o.failed() {
                break;
            }
        } else {
        match s {
            Step::Write(d, e) => {
                let d = *d as usize % ids.len();
                target = Some(d);
                if exists[d] {
                    let spec = to_espec(e, &authors, &keys);
                    if c.raw {
                        let (hash, len) = content(spec.c);
                        let fe = forge_entry(&[1u8; 64], &[2u8; 64], ids[d].as_bytes(), author(spec.a).id().as_bytes(), &spec.k, len, hash.as_bytes(), spec.t)?;
                        es(verif::store_put(&mut st.store, fe))?;
                    } else {
                        let se = sign(namespace(slots[d]), &spec);
                        let _ = ctx.rt.block_on(async {
                            let mut r = es(st.store.open_replica(&ids[d]))?;
                            Ok::<_, String>(r.insert_remote_entry(se, [1u8; 32], ContentStatus::Missing).await)
                        })?;
                        st.store.close_replica(ids[d]);
                    }
                }
            }
            Step::Settings(d, p) => {
                let d = *d as usize % ids.len();
                target = Some(d);
                let r1 = st.store.register_useful_peer(ids[d], [*p + 1; 32]);
                let r2 = st.store.set_download_policy(&ids[d], DownloadPolicy::NothingExcept(vec![FilterKind::Exact(vec![*p].into())]));
                if (r1.is_ok() || r2.is_ok()) != exists[d] {
                    o.fail("C16/settings-on-removed", format!("step {n}: settings on a document that {} succeeded={:?}/{:?}", if exists[d] { "exists" } else { "was removed" }, r1.is_ok(), r2.is_ok()));
                    break;
                }
            }
            Step::Remove(d) => {
                let d = *d as usize % ids.len();
                target = Some(d);
                let had_data = !expected[d].entries.is_empty();
                let res = st.store.remove_replica(&ids[d]);
                if let Err(e) = res {
                    o.fail("C16/remove-closed-failed", format!("step {n}: removing a closed document failed: {e:?}"));
                    break;
                }
                if exists[d] && had_data {
                    let others_with_data = (0..ids.len()).filter(|j| *j != d && !expected[*j].entries.is_empty()).count();
                    let nb = (0..ids.len()).any(|j| j != d && exists[j] && neighbours(ids[d].as_bytes(), ids[j].as_bytes()));
                    if others_with_data >= 1 && (nb || ids[d].as_bytes()[31] == 0xFF) {
                        removed_interesting[d] = true;
                        o.class("removed-neighbour-or-ff");
                    }
                    o.class("removed-with-data");
                }
                exists[d] = false;
                expected[d] = empty_doc(None);
                match st.store.open_replica(&ids[d]) {
                    Err(OpenError::NotFound) => {}
                    other => {
                        o.fail("C16/removed-still-opens", format!("step {n}: opening a removed document: {:?}", other.map(|_| "opened").map_err(|e| e.to_string())));
                        break;
                    }
                }
            }
            Step::RemoveWhileOpen(d) => {
                let d = *d as usize % ids.len();
                if exists[d] {
                    let opened = st.store.open_replica(&ids[d]).is_ok();
                    let res = st.store.remove_replica(&ids[d]);
                    st.store.close_replica(ids[d]);
                    if opened && res.is_ok() {
                        o.fail("C16/removed-while-open", format!("step {n}: remove_replica succeeded on an open document"));
                        break;
                    }
                    o.class("refused-while-open");
                }
            }
            Step::Recreate(d) => {
                let d = *d as usize % ids.len();
                target = Some(d);
                if !exists[d] {
                    es(st.store.import_namespace(cap(d)))?;
                    exists[d] = true;
                    expected[d] = empty_doc(Some(kind));
                    let got = doc_dump(&mut st.store, ids[d])?;
                    if got != expected[d] {
                        o.fail("C16/recreated-not-empty", format!("step {n}: re-created document shows {}", describe_doc(&got)));
                        break;
                    }
                    if removed_interesting[d] {
                        o.nontrivial = true;
                        o.class("recreated-after-interesting-removal");
                    }
                }
            }
            Step::Reopen => {
                st = st.reopen()?;
            }
        }
        }
        if o.failed() {
            break;
        }
        // every document: only the target may have changed
        let mut all_hashes: BTreeSet<[u8; 32]> = BTreeSet::new();
        if c.crowd_docs > 0 {
            all_hashes.insert(*content(1).0.as_bytes());
        }
        for j in 0..ids.len() {
            let got = doc_dump(&mut st.store, ids[j])?;
            let writes = matches!(s, Step::Write(..) | Step::Settings(..));
            if Some(j) == target && writes && exists[j] {
                expected[j] = got.clone();
            } else if got != expected[j] {
                let what = if Some(j) == target { "the targeted document is not what it must be" } else { "a document that was not targeted changed" };
                o.fail(
                    if Some(j) == target { "C16/target-state" } else { "C16/other-document-changed" },
                    format!("step {n} {:?}: {what}: document {} now {} expected {}", s, hex::encode(&ids[j].as_bytes()[..4]), describe_doc(&got), describe_doc(&expected[j])),
                );
                break;
            }
            for e in &got.entries {
                all_hashes.insert(*e.content_hash().as_bytes());
            }
            if got.entries.len() != got.by_key.len() {
                o.fail("C16/paths", format!("step {n}: document {j} author-key path has {} entries, key-author path {}", got.entries.len(), got.by_key.len()));
                break;
            }
        }
        if o.failed() {
            break;
        }
        let mut reported: BTreeSet<[u8; 32]> = BTreeSet::new();
        for h in es(st.store.content_hashes())? {
            reported.insert(*es(h)?.as_bytes());
        }
        if reported != all_hashes {
            o.fail("C16/content-hashes", format!("step {n} {:?}: content_hashes() reports {} hashes, the documents hold {}", s, reported.len(), all_hashes.len()));
            break;
        }
    }
    if c.crowd_docs > 0 && !o.failed() {
        let mut crowd_after = store_dump(&mut st.store, &crowd_ids)?;
        let mut before = crowd_before.clone();
        // the store-wide hash list also covers the history's own documents
        for d in [&mut crowd_after, &mut before] {
            d.content_hashes.clear();
            d.authors.clear();
            d.namespaces.retain(|(id, _)| crowd_ids.iter().any(|c| c.as_bytes() == id));
        }
        if before.namespaces.len() != c.crowd_docs as usize {
            return Err(format!("only {} of {} crowd documents were listed before the history", before.namespaces.len(), c.crowd_docs));
        }
        if crowd_after != before {
            let changed: Vec<String> = before.docs.iter().filter(|(k, v)| crowd_after.docs.get(*k) != Some(*v)).take(3).map(|(k, v)| format!("{} was {} now {}", hex::encode(&k[..4]), describe_doc(v), crowd_after.docs.get(k).map(describe_doc).unwrap_or_default())).collect();
            o.fail("C16/other-document-changed", format!("a crowd of {} bystander documents did not survive the history unchanged: {}", c.crowd_docs, changed.join("; ")));
        }
    }
    st.cleanup();
    Ok(())
}

/// One step of the history through a store actor (validated paths only).
#[allow(clippy::too_many_arguments)]
async fn actor_step(
    h: &iroh_docs::actor::SyncHandle,
    n: usize,
    s: &Step,
    ids: &[NamespaceId],
    slots: &[u8],
    authors: &[u8],
    keys: &[Vec<u8>],
    exists: &mut [bool],
    expected: &mut [DocDump],
    removed_interesting: &mut [bool],
    target: &mut Option<usize>,
    kind: &'static str,
    o: &mut Outcome,
) -> R<()> {
    use iroh_docs::actor::OpenOpts;
    match s {
        Step::Write(d, e) => {
            let d = *d as usize % ids.len();
            *target = Some(d);
            if exists[d] {
                let se = sign(namespace(slots[d]), &to_espec(e, authors, keys));
                es(h.open(ids[d], OpenOpts::default().sync()).await)?;
                let _ = h.insert_remote(ids[d], se, [1u8; 32], ContentStatus::Missing).await;
                let _ = es(h.close(ids[d]).await)?;
            }
        }
        Step::Settings(d, p) => {
            let d = *d as usize % ids.len();
            *target = Some(d);
            let r1 = h.register_useful_peer(ids[d], [*p + 1; 32]).await;
            let r2 = h.set_download_policy(ids[d], DownloadPolicy::NothingExcept(vec![FilterKind::Exact(vec![*p].into())])).await;
            if (r1.is_ok() || r2.is_ok()) != exists[d] {
                o.fail("C16/settings-on-removed", format!("step {n} (actor): settings on a document that {} succeeded={:?}/{:?}", if exists[d] { "exists" } else { "was removed" }, r1.is_ok(), r2.is_ok()));
            }
        }
        Step::Remove(d) => {
            let d = *d as usize % ids.len();
            *target = Some(d);
            let had_data = !expected[d].entries.is_empty();
            if let Err(e) = h.drop_replica(ids[d]).await {
                o.fail("C16/remove-closed-failed", format!("step {n} (actor): dropping a closed document failed: {e:?}"));
                return Ok(());
            }
            if exists[d] && had_data {
                let others_with_data = (0..ids.len()).filter(|j| *j != d && !expected[*j].entries.is_empty()).count();
                let nb = (0..ids.len()).any(|j| j != d && exists[j] && neighbours(ids[d].as_bytes(), ids[j].as_bytes()));
                if others_with_data >= 1 && (nb || ids[d].as_bytes()[31] == 0xFF) {
                    removed_interesting[d] = true;
                    o.class("removed-neighbour-or-ff");
                }
                o.class("removed-with-data");
            }
            exists[d] = false;
            expected[d] = empty_doc(None);
            if h.open(ids[d], OpenOpts::default()).await.is_ok() {
                o.fail("C16/removed-still-opens", format!("step {n} (actor): a removed document can still be opened"));
            }
        }
        Step::RemoveWhileOpen(d) => {
            let d = *d as usize % ids.len();
            if exists[d] {
                // two handles: drop_replica releases one and must then be refused because the other is still open
                es(h.open(ids[d], OpenOpts::default()).await)?;
                es(h.open(ids[d], OpenOpts::default().sync()).await)?;
                let res = h.drop_replica(ids[d]).await;
                if res.is_ok() {
                    o.fail("C16/removed-while-open", format!("step {n} (actor): drop_replica succeeded although a handle of the document was still open"));
                    return Ok(());
                }
                let _ = h.close(ids[d]).await;
                let _ = h.close(ids[d]).await;
                o.class("refused-while-open");
                o.class("refused-while-open(actor, second handle)");
            }
        }
        Step::Recreate(d) => {
            let d = *d as usize % ids.len();
            *target = Some(d);
            if !exists[d] {
                es(h.import_namespace(Capability::Write(namespace(slots[d]).clone())).await)?;
                exists[d] = true;
                expected[d] = empty_doc(Some(kind));
                if removed_interesting[d] {
                    o.nontrivial = true;
                    o.class("recreated-after-interesting-removal");
                }
            }
        }
        Step::Reopen => {}
    }
    Ok(())
}

// ------------------------------------------------------------------------------------------------
// engine level: what the blob store's garbage collector is told to protect

struct GcFixture {
    endpoint: iroh::Endpoint,
    gossip: iroh_gossip::net::Gossip,
    blobs: iroh_blobs::api::Store,
}

fn gc_key(k: u8) -> Vec<u8> {
    match k % 5 {
        0 => b"a".to_vec(),
        1 => b"a/1".to_vec(),
        2 => b"a/2".to_vec(),
        3 => b"b".to_vec(),
        _ => vec![b'a', 0xFF],
    }
}

/// After every step the garbage collector asks. `Abort` ("skip this run") is always acceptable; `Continue` means "this set is
/// complete, sweep everything else", so the set must be exactly the hashes of the entries the documents hold.
fn gc_protection(ctx: &mut Ctx, steps: &[GcStep], o: &mut Outcome) -> R<()> {
    use std::collections::{BTreeMap, HashSet};
    use iroh_blobs::{store::ProtectOutcome, Hash};
    use iroh_docs::{engine::ProtectCallbackHandler, protocol::Docs};
    o.class("gc-protection(engine)");
    if !ctx.fixtures.contains_key("c16gc") {
        let f: R<GcFixture> = ctx.rt.block_on(async {
            use iroh::{endpoint::presets, Endpoint};
            let endpoint = es(Endpoint::builder(presets::Minimal).bind().await)?;
            let gossip = iroh_gossip::net::Gossip::builder().spawn(endpoint.clone());
            let blobs = iroh_blobs::store::mem::MemStore::new();
            Ok(GcFixture { endpoint, gossip, blobs: (*blobs).clone() })
        });
        ctx.fixtures.insert("c16gc", Box::new(f?));
    }
    let fx = ctx.fixtures.get("c16gc").and_then(|f| f.downcast_ref::<GcFixture>()).ok_or("fixture")?;
    let (endpoint, gossip, blobs) = (fx.endpoint.clone(), fx.gossip.clone(), fx.blobs.clone());
    let mut t = T0 + 1000;
    ctx.rt.block_on(async {
        let (handler, protect_cb) = ProtectCallbackHandler::new();
        let docs = es(Docs::memory().protect_handler(handler).spawn(endpoint, blobs, gossip).await)?;
        let author = es(docs.author_create().await)?;
        // model: per document (None = dropped) key -> hash; prefix semantics of one author with increasing timestamps
        let mut handles = vec![];
        let mut model: Vec<Option<BTreeMap<Vec<u8>, Hash>>> = vec![];
        let mut alive = true;
        let mut asked = 0u64;
        for (i, s) in steps.iter().enumerate() {
            t += 1;
            verif::set_clock(Some(t));
            if alive {
                match s {
                    GcStep::Create => {
                        if handles.len() < 3 {
                            handles.push(es(docs.create().await)?);
                            model.push(Some(BTreeMap::new()));
                        }
                    }
                    GcStep::Set(d, k, c) => {
                        if !handles.is_empty() {
                            let d = *d as usize % handles.len();
                            if let Some(m) = model[d].as_mut() {
                                let key = gc_key(*k);
                                let value = format!("content-{}-{}", c % 4, d);
                                let h = es(handles[d].set_bytes(author, key.clone(), value).await)?;
                                m.retain(|kk, _| !kk.starts_with(&key));
                                m.insert(key, h);
                            }
                        }
                    }
                    GcStep::Del(d, k) => {
                        if !handles.is_empty() {
                            let d = *d as usize % handles.len();
                            if let Some(m) = model[d].as_mut() {
                                let key = gc_key(*k);
                                es(handles[d].del(author, key.clone()).await)?;
                                m.retain(|kk, _| !kk.starts_with(&key));
                                m.insert(key, Hash::EMPTY);
                            }
                        }
                    }
                    GcStep::DropDoc(d) => {
                        if !handles.is_empty() {
                            let d = *d as usize % handles.len();
                            if model[d].is_some() {
                                es(handles[d].close().await)?;
                                es(docs.drop_doc(handles[d].id()).await)?;
                                model[d] = None;
                                o.class("gc-protection/document-dropped");
                            }
                        }
                    }
                    GcStep::Shutdown => {
                        iroh::protocol::ProtocolHandler::shutdown(&docs).await;
                        alive = false;
                        o.class("gc-protection/asked-after-the-docs-shutdown");
                    }
                }
            }
            // the garbage collector asks (twice after a shutdown: the first answer may differ from the later ones)
            let held: HashSet<Hash> = model.iter().flatten().flat_map(|m| m.values().copied()).collect();
            for round in 0..if alive { 1 } else { 2 } {
                let mut live = HashSet::new();
                let outcome = match tokio::time::timeout(std::time::Duration::from_secs(20), protect_cb(&mut live)).await {
                    Ok(x) => x,
                    Err(_) => return Err("harness-timeout: the protect callback did not answer within 20 s".into()),
                };
                asked += 1;
                match outcome {
                    ProtectOutcome::Abort => {
                        if alive {
                            o.class("gc-protection/abort-while-alive");
                        }
                    }
                    _ => {
                        if live != held {
                            o.fail(
                                "C16/gc-told-to-continue-with-a-wrong-protected-set",
                                format!(
                                    "step {i} {:?} (round {round}, docs {}): the garbage collector was told to go ahead with {} protected hashes, the documents hold {} ({} missing, {} extra)",
                                    s,
                                    if alive { "alive" } else { "shut down" },
                                    live.len(),
                                    held.len(),
                                    held.difference(&live).count(),
                                    live.difference(&held).count()
                                ),
                            );
                            return Ok(());
                        }
                    }
                }
            }
        }
        o.count("gc_protection_requests", asked);
        if model.iter().flatten().filter(|m| !m.is_empty()).count() >= 2 {
            o.nontrivial = true;
        }
        if alive {
            iroh::protocol::ProtocolHandler::shutdown(&docs).await;
        }
        Ok(())
    })
}
