//! C03 Only authentic, well-formed, in-namespace, non-future entries are accepted.

use iroh_docs::{
    actor::OpenOpts, store::Store, sync::InsertError, verif, ContentStatus, Event, RecordIdentifier, SignedEntry,
};
use proptest::{collection::vec, prelude::*};
use serde::{Deserialize, Serialize};

use crate::{
    act,
    common::*,
    engine::{idx, Ctx, Outcome, Prop, Tier},
    wire::{Fields, MMessage, MPart, MRange, MRangeFingerprint, MRangeItem, MFingerprint},
};

pub struct C03;

#[derive(Serialize, Deserialize, Clone, Debug, PartialEq, Eq)]
pub enum Field {
    Key,
    Author,
    Namespace,
    Timestamp,
    Len,
    Hash,
    AuthorSig,
    NamespaceSig,
}

#[derive(Serialize, Deserialize, Clone, Debug)]
pub enum Tamper {
    /// control: the valid base entry
    None,
    FlipBit(Field, u16),
    SetByte(Field, u16, u8),
    /// timestamp ± 2^k, signatures unchanged
    TsDelta(u8, bool),
    SwapSigs,
    /// signatures of another valid entry by the same author in the same namespace
    SigsFromOther,
    /// id replaced by another real key (0..6) or a non-curve point (>= 6), signatures unchanged
    AuthorReplaced(u8),
    NamespaceReplaced(u8),
    /// correctly signed for a foreign namespace (its own secret)
    ForeignNamespace(u8),
    /// claims our namespace, but the namespace signature is made with another namespace's secret
    WrongNamespaceSecret(u8),
    /// claims author a, but the author signature is made with another author's secret
    WrongAuthorSecret(u8),
    /// names a foreign namespace id, but both signatures are made over that content with the *receiving* replica's
    /// namespace secret and the real author: verifies under the replica's key, yet is not an entry of the replica's namespace
    ForeignIdOurSecret(u8),
    /// correctly signed, timestamp = now + 10 min + d (d in -1..=2)
    Future(i8),
    /// correctly signed, timestamp u64::MAX
    TsMax,
    /// correctly signed emptiness combination: bit0 = hash is EMPTY, bit1 = len is 0
    Emptiness(u8),
}

#[derive(Serialize, Deserialize, Clone, Debug)]
pub struct Small {
    pub a: u8,
    #[serde(with = "hexbytes")]
    pub k: Vec<u8>,
    pub t: u8,
    pub c: u8,
}

#[derive(Serialize, Deserialize, Clone, Debug)]
pub struct Case {
    pub base: Small,
    pub tamper: Tamper,
    /// entries already in the replica
    pub pre: Vec<Small>,
    /// valid entries travelling in the same message
    pub others: Vec<Small>,
    /// position of the tampered entry among the others
    pub pos: u16,
    /// how many item parts the values are spread over (1..=3)
    pub parts: u8,
    pub have_local: bool,
    pub with_fingerprint: bool,
    pub status: u8,
    /// the receiving store also holds the other documents of the pool (imported, empty)
    #[serde(default)]
    pub others_imported: bool,
}

fn small() -> impl Strategy<Value = Small> {
    (0u8..3, crate::gen::key_lit_small(), 0u8..8, 0u8..4).prop_map(|(a, k, t, c)| Small { a, k, t, c })
}

fn field() -> impl Strategy<Value = Field> {
    prop::sample::select(vec![Field::Key, Field::Author, Field::Namespace, Field::Timestamp, Field::Len, Field::Hash, Field::AuthorSig, Field::NamespaceSig])
}

fn tamper() -> impl Strategy<Value = Tamper> {
    prop_oneof![
        2 => Just(Tamper::None),
        6 => (field(), any::<u16>()).prop_map(|(f, b)| Tamper::FlipBit(f, b)),
        3 => (field(), any::<u16>(), any::<u8>()).prop_map(|(f, i, v)| Tamper::SetByte(f, i, v)),
        2 => (0u8..64, any::<bool>()).prop_map(|(k, up)| Tamper::TsDelta(k, up)),
        1 => Just(Tamper::SwapSigs),
        2 => Just(Tamper::SigsFromOther),
        2 => (0u8..9).prop_map(Tamper::AuthorReplaced),
        2 => (0u8..9).prop_map(Tamper::NamespaceReplaced),
        1 => (1u8..6).prop_map(Tamper::ForeignNamespace),
        2 => (1u8..6).prop_map(Tamper::WrongNamespaceSecret),
        2 => (1u8..6).prop_map(Tamper::WrongAuthorSecret),
        2 => (1u8..6).prop_map(Tamper::ForeignIdOurSecret),
        4 => (-1i8..=2).prop_map(Tamper::Future),
        1 => Just(Tamper::TsMax),
        4 => (0u8..4).prop_map(Tamper::Emptiness),
    ]
}

fn to_entry(s: &Small) -> SignedEntry {
    sign(namespace(0), &ESpec { a: s.a, k: s.k.clone(), t: T0 + s.t as u64, c: s.c })
}

const NOW: u64 = T0 + 3;

fn non_curve_point(i: u8) -> [u8; 32] {
    // y = 2 is not on the curve; also try a few other encodings and keep those the library rejects
    let candidates: [[u8; 32]; 3] = [
        {
            let mut b = [0u8; 32];
            b[0] = 2;
            b
        },
        {
            let mut b = [0xFFu8; 32];
            b[0] = 0xEE;
            b
        },
        {
            let mut b = [0u8; 32];
            b[0] = 7;
            b[31] = 0x80;
            b
        },
    ];
    for k in 0..3 {
        let c = candidates[(i as usize + k) % 3];
        if iroh::PublicKey::from_bytes(&c).is_err() {
            return c;
        }
    }
    candidates[0]
}

fn field_bytes<'a>(f: &'a mut Fields, which: &Field, scratch: &'a mut Vec<u8>) -> &'a mut [u8] {
    match which {
        Field::Key => &mut f.key[..],
        Field::Author => &mut f.author[..],
        Field::Namespace => &mut f.namespace[..],
        Field::Hash => &mut f.hash[..],
        Field::AuthorSig => &mut f.author_sig[..],
        Field::NamespaceSig => &mut f.namespace_sig[..],
        Field::Timestamp | Field::Len => &mut scratch[..],
    }
}

/// Apply the tampering. Returns None if it is not applicable (e.g. flipping a bit of an empty key).
fn apply(base: &SignedEntry, t: &Tamper) -> Option<Fields> {
    let mut f = Fields::of(base);
    match t {
        Tamper::None => {}
        Tamper::FlipBit(which, bit) | Tamper::SetByte(which, bit, _) => {
            let mut scratch = match which {
                Field::Timestamp => f.ts.to_be_bytes().to_vec(),
                Field::Len => f.len.to_be_bytes().to_vec(),
                _ => vec![],
            };
            {
                let bytes = field_bytes(&mut f, which, &mut scratch);
                if bytes.is_empty() {
                    return None;
                }
                match t {
                    Tamper::FlipBit(..) => {
                        let nbits = bytes.len() * 8;
                        let b = idx(*bit, nbits);
                        bytes[b / 8] ^= 1 << (b % 8);
                    }
                    Tamper::SetByte(_, i, v) => {
                        let i = idx(*i, bytes.len());
                        if bytes[i] == *v {
                            bytes[i] = v.wrapping_add(1);
                        } else {
                            bytes[i] = *v;
                        }
                    }
                    _ => unreachable!(),
                }
            }
            match which {
                Field::Timestamp => f.ts = u64::from_be_bytes(scratch[..8].try_into().unwrap()),
                Field::Len => f.len = u64::from_be_bytes(scratch[..8].try_into().unwrap()),
                _ => {}
            }
        }
        Tamper::TsDelta(k, up) => {
            let d = 1u64 << (*k % 64);
            f.ts = if *up { f.ts.wrapping_add(d) } else { f.ts.wrapping_sub(d) };
        }
        Tamper::SwapSigs => std::mem::swap(&mut f.author_sig, &mut f.namespace_sig),
        Tamper::SigsFromOther => {
            let other = sign(namespace(0), &ESpec { a: author_index(&base.author()).unwrap_or(0), k: [base.key(), b"~other"].concat(), t: base.timestamp(), c: 1 });
            let o = Fields::of(&other);
            f.author_sig = o.author_sig;
            f.namespace_sig = o.namespace_sig;
        }
        Tamper::AuthorReplaced(i) => {
            let new = if (*i as usize) < N_AUTHORS { author(*i).id().to_bytes() } else { non_curve_point(*i) };
            if new == f.author {
                return None;
            }
            f.author = new;
        }
        Tamper::NamespaceReplaced(i) => {
            let new = if (*i as usize) < N_NAMESPACES { namespace(*i).id().to_bytes() } else { non_curve_point(*i) };
            if new == f.namespace {
                return None;
            }
            f.namespace = new;
        }
        Tamper::ForeignNamespace(i) => {
            let a = author(author_index(&base.author()).unwrap_or(0));
            f.namespace = namespace(*i).id().to_bytes();
            f.resign(namespace(*i), a);
        }
        Tamper::WrongNamespaceSecret(i) => {
            let a = author(author_index(&base.author()).unwrap_or(0));
            f.resign(namespace(*i), a);
        }
        Tamper::WrongAuthorSecret(i) => {
            let me = author_index(&base.author()).unwrap_or(0);
            let other = (me + *i) % N_AUTHORS as u8;
            if other == me {
                return None;
            }
            f.resign(namespace(0), author(other));
        }
        Tamper::ForeignIdOurSecret(i) => {
            let a = author(author_index(&base.author()).unwrap_or(0));
            f.namespace = namespace(*i).id().to_bytes();
            f.resign(namespace(0), a);
        }
        Tamper::Future(d) => {
            f.ts = (NOW + FUTURE_SHIFT).wrapping_add(*d as i64 as u64);
            f.resign(namespace(0), author(author_index(&base.author()).unwrap_or(0)));
        }
        Tamper::TsMax => {
            f.ts = u64::MAX;
            f.resign(namespace(0), author(author_index(&base.author()).unwrap_or(0)));
        }
        Tamper::Emptiness(m) => {
            f.hash = if m & 1 != 0 { *iroh_blobs::Hash::EMPTY.as_bytes() } else { *iroh_blobs::Hash::new(b"x").as_bytes() };
            f.len = if m & 2 != 0 { 0 } else { 5 };
            f.resign(namespace(0), author(author_index(&base.author()).unwrap_or(0)));
        }
    }
    Some(f)
}

fn tamper_class(t: &Tamper) -> &'static str {
    match t {
        Tamper::None => "tamper/none(control)",
        Tamper::FlipBit(Field::AuthorSig | Field::NamespaceSig, _) => "tamper/flip-bit-signature",
        Tamper::FlipBit(..) => "tamper/flip-bit-field",
        Tamper::SetByte(..) => "tamper/set-byte",
        Tamper::TsDelta(..) => "tamper/timestamp-delta",
        Tamper::SwapSigs => "tamper/swap-signatures",
        Tamper::SigsFromOther => "tamper/signatures-from-other-entry",
        Tamper::AuthorReplaced(i) if (*i as usize) < N_AUTHORS => "tamper/author-replaced-real-key",
        Tamper::AuthorReplaced(_) => "tamper/author-non-curve-point",
        Tamper::NamespaceReplaced(i) if (*i as usize) < N_NAMESPACES => "tamper/namespace-replaced-real-key",
        Tamper::NamespaceReplaced(_) => "tamper/namespace-non-curve-point",
        Tamper::ForeignNamespace(_) => "tamper/valid-for-foreign-namespace",
        Tamper::WrongNamespaceSecret(_) => "tamper/wrong-namespace-secret",
        Tamper::WrongAuthorSecret(_) => "tamper/wrong-author-secret",
        Tamper::ForeignIdOurSecret(_) => "tamper/foreign-namespace-id-signed-with-our-secret",
        Tamper::Future(_) => "tamper/future-boundary",
        Tamper::TsMax => "tamper/timestamp-max",
        Tamper::Emptiness(_) => "tamper/emptiness-combination",
    }
}

impl Prop for C03 {
    type Case = Case;
    const ID: &'static str = "C03";

    fn rule() -> String {
        "a validly signed base entry is tampered (bit flips and byte changes in every field and both signatures, timestamp +/- 2^k, \
         swapped / borrowed signatures, ids replaced by other real keys or non-curve points, foreign or wrong signing secrets, \
         timestamps around now+10min with a pinned clock, all four emptiness combinations correctly signed) and offered (a) as a \
         single remote insert and (b) at a generated position of a crafted reconciliation message (1..=3 item parts, have_local \
         either way, optional fingerprint part, mixed with valid entries, replica pre-filled) through the store actor with a \
         subscriber; acceptance must coincide with the independently evaluated validity predicate on both paths, the store must \
         equal the model applied to exactly the valid entries in order, and events must be exactly the applied entries. All single-bit \
         flips of one base entry's fixed-width fields and signatures are enumerated exhaustively (1936 cases, plus the four future-boundary and four emptiness cases). non-trivial = the \
         offered entry differs from the valid base and (b) carries >= 1 valid entry after it; distinct by serialised case"
            .into()
    }

    fn cases(tier: Tier) -> u64 {
        tier.pick(60_000, 2_000_000)
    }

    fn enumerate(_tier: Tier) -> Vec<Case> {
        let mut v = vec![];
        let base = Small { a: 0, k: b"ab".to_vec(), t: 2, c: 1 };
        let mk = |tamper: Tamper, n: usize| Case {
            base: base.clone(),
            tamper,
            pre: vec![],
            others: vec![Small { a: 1, k: b"a".to_vec(), t: 1, c: 2 }, Small { a: 0, k: b"b".to_vec(), t: 1, c: 1 }],
            pos: if n % 2 == 0 { 0 } else { 30000 },
            parts: 1 + (n % 3) as u8,
            have_local: n % 2 == 0,
            with_fingerprint: n % 5 == 0,
            status: (n % 3) as u8,
            others_imported: n % 4 == 1,
        };
        let widths = [(Field::AuthorSig, 512usize), (Field::NamespaceSig, 512), (Field::Namespace, 256), (Field::Author, 256), (Field::Hash, 256), (Field::Timestamp, 64), (Field::Len, 64), (Field::Key, 16)];
        for (f, nbits) in widths {
            for b in 0..nbits {
                // idx(bit, nbits) must hit b: choose the smallest u16 mapping to b
                let raw = (((b as u32) << 16) / nbits as u32 + if ((b as u32) << 16) % nbits as u32 == 0 { 0 } else { 1 }) as u16;
                debug_assert_eq!(idx(raw, nbits), b);
                v.push(mk(Tamper::FlipBit(f.clone(), raw), b));
            }
        }
        for d in -1i8..=2 {
            v.push(mk(Tamper::Future(d), d as usize & 3));
        }
        for m in 0..4 {
            v.push(mk(Tamper::Emptiness(m), m as usize));
        }
        for i in 1..6u8 {
            v.push(mk(Tamper::ForeignIdOurSecret(i), i as usize));
            v.push(mk(Tamper::ForeignNamespace(i), i as usize + 1));
        }
        v
    }

    fn strategy(_tier: Tier) -> BoxedStrategy<Case> {
        (
            small(),
            tamper(),
            vec(small(), 0..=4),
            vec(small(), 0..=4),
            any::<u16>(),
            1u8..=3,
            any::<bool>(),
            any::<bool>(),
            (0u8..3, any::<bool>()),
        )
            .prop_map(|(base, tamper, pre, others, pos, parts, have_local, with_fingerprint, (status, others_imported))| Case {
                base,
                tamper,
                pre,
                others,
                pos,
                parts,
                have_local,
                with_fingerprint,
                status,
                others_imported,
            })
            .boxed()
    }

    fn check(ctx: &mut Ctx, c: &Case) -> Outcome {
        let mut o = Outcome::default();
        verif::set_clock(Some(NOW));
        let r = check(ctx, c, &mut o);
        verif::set_clock(None);
        if let Err(e) = r {
            o.fail("C03/harness-error", e);
        }
        o
    }

    fn assumptions() -> Vec<String> {
        vec![
            "ed25519 cannot be forged: the oracle verifies both signatures with iroh::PublicKey::verify over bytes the harness assembles itself".into(),
            "the clock hook pins 'now' for the receiving replica".into(),
        ]
    }
}

fn status_of(i: u8) -> ContentStatus {
    match i % 3 {
        0 => ContentStatus::Complete,
        1 => ContentStatus::Incomplete,
        _ => ContentStatus::Missing,
    }
}

/// Entries, heads or content hashes under any namespace of the pool other than namespace 0.
fn foreign_documents_hold_something(st: &mut Store) -> R<Option<String>> {
    for i in 1..N_NAMESPACES as u8 {
        let id = namespace(i).id();
        let d = dump(st, id)?;
        if !d.is_empty() {
            return Ok(Some(format!("document {i} now holds {}", describe_all(&d))));
        }
        let bk = dump_by_key(st, id)?;
        if !bk.is_empty() {
            return Ok(Some(format!("document {i} now shows {} on the key-ordered path", describe_all(&bk))));
        }
        let h = heads(st, id)?;
        if !h.is_empty() {
            return Ok(Some(format!("document {i} now has {} author heads", h.len())));
        }
    }
    Ok(None)
}

fn check(ctx: &mut Ctx, c: &Case, o: &mut Outcome) -> R<()> {
    let nssec = namespace(0).clone();
    let ns = nssec.id();
    let base = to_entry(&c.base);
    let Some(fields) = apply(&base, &c.tamper) else {
        o.class("skipped/tamper-not-applicable");
        return Ok(());
    };
    o.class(tamper_class(&c.tamper));
    let offered = fields.build()?;
    let differs = offered != base;
    let valid = fields.valid(ns.as_bytes(), NOW);
    o.class(if valid { "oracle/valid" } else { "oracle/invalid" });
    if matches!(c.tamper, Tamper::None) && !valid {
        return Err("the untampered base entry is judged invalid by the oracle".into());
    }

    // (a) single remote insert into a fresh replica
    let mut st = Store::memory();
    es(st.import_namespace(nssec.clone().into()))?;
    if c.others_imported {
        o.class("store-holds-the-other-documents");
        for i in 1..N_NAMESPACES as u8 {
            es(st.import_namespace(namespace(i).clone().into()))?;
        }
    }
    let res = ctx.rt.block_on(async {
        let mut r = es(st.open_replica(&ns))?;
        Ok::<_, String>(r.insert_remote_entry(offered.clone(), [8u8; 32], ContentStatus::Missing).await)
    })?;
    st.close_replica(ns);
    let accepted_direct = match &res {
        Ok(_) => true,
        Err(InsertError::Validation(_)) => false,
        Err(e) => return Err(format!("direct path: unexpected error {e:?}")),
    };
    let d = dump(&mut st, ns)?;
    if accepted_direct != valid {
        o.fail(
            if accepted_direct { "C03/direct-accepts-invalid" } else { "C03/direct-rejects-valid" },
            format!("insert_remote_entry of {:?}-tampered {} : accepted={accepted_direct}, validity predicate={valid}", c.tamper, describe(&offered)),
        );
        return Ok(());
    }
    if accepted_direct != (d == vec![offered.clone()]) || (!accepted_direct && !d.is_empty()) {
        o.fail("C03/direct-store-state", format!("after the direct offer (accepted={accepted_direct}) the replica holds {}", describe_all(&d)));
        return Ok(());
    }
    if let Err(e) = self_consistent(&mut st, ns) {
        o.fail("C03/direct-consistency", e);
        return Ok(());
    }
    if let Some(e) = foreign_documents_hold_something(&mut st)? {
        o.fail("C03/direct-entry-in-another-document", format!("after offering {:?}-tampered {} to the replica of namespace 0: {e}", c.tamper, describe(&offered)));
        return Ok(());
    }

    // (b) inside a crafted reconciliation message, through the actor, with a subscriber
    let pre: Vec<SignedEntry> = c.pre.iter().map(to_entry).collect();
    let others: Vec<SignedEntry> = c.others.iter().map(to_entry).collect();
    let mut values: Vec<(SignedEntry, bool)> = others.iter().map(|e| (e.clone(), true)).collect();
    let at = idx(c.pos, values.len() + 1);
    values.insert(at, (offered.clone(), valid));
    if differs && at + 1 < values.len() {
        o.nontrivial = true;
    }
    let nparts = (c.parts.clamp(1, 3) as usize).min(values.len());
    let status = status_of(c.status);
    let lo = RecordIdentifier::new(ns, author(0).id(), b"");
    let mut parts = vec![];
    let chunk = values.len().div_ceil(nparts);
    for (pi, ch) in values.chunks(chunk.max(1)).enumerate() {
        parts.push(MPart::RangeItem(MRangeItem {
            range: MRange { x: lo.clone(), y: lo.clone() },
            values: ch.iter().map(|(e, _)| (e.clone(), status)).collect(),
            have_local: if pi == 0 { c.have_local } else { !c.have_local },
        }));
    }
    if c.with_fingerprint {
        parts.insert(
            0,
            MPart::RangeFingerprint(MRangeFingerprint { range: MRange { x: lo.clone(), y: lo.clone() }, fingerprint: MFingerprint([7u8; 32]) }),
        );
    }
    let msg = MMessage { parts }.to_real();

    let mut model = Model::default();
    let h = act::spawn(Store::memory());
    let out: R<()> = ctx.rt.block_on(async {
        es(h.import_namespace(nssec.clone().into()).await)?;
        if c.others_imported {
            for i in 1..N_NAMESPACES as u8 {
                es(h.import_namespace(namespace(i).clone().into()).await)?;
            }
        }
        let (tx, rx) = async_channel::bounded(256);
        es(h.open(ns, OpenOpts::default().sync().subscribe(tx)).await)?;
        let mut accepted_pre = (0u64, 0u64);
        for e in &pre {
            if h.insert_remote(ns, e.clone(), [1u8; 32], ContentStatus::Missing).await.is_ok() {
                accepted_pre = (accepted_pre.0 + 1, accepted_pre.1.wrapping_add(e.content_len()));
                if model.apply(e).is_none() {
                    return Err("pre-fill: store accepted what the model rejects (C02 territory)".into());
                }
            } else if model.clone().apply(e).is_some() {
                return Err("pre-fill: store rejected what the model accepts (C02 territory)".into());
            }
        }
        let _ = act::drain(&rx);
        let before = act::dump(&h, ns).await?;
        let from = [0x5Au8; 32];
        // "counted as inserted": the actor's own counters of entries added by peers
        let counted = |h: &iroh_docs::actor::SyncHandle| (h.metrics().new_entries_remote.get(), h.metrics().new_entries_remote_size.get());
        let counted_before = counted(&h);
        if counted_before != accepted_pre {
            o.fail("C03/counted-as-inserted", format!("{} single remote inserts were accepted ({} bytes) and {} refused, but the actor counts {} entries / {} bytes as added by peers", accepted_pre.0, accepted_pre.1, pre.len() as u64 - accepted_pre.0, counted_before.0, counted_before.1));
            return Ok(());
        }
        let reply = h.sync_process_message(ns, msg, from, Default::default()).await;
        let (_reply, outcome) = match reply {
            Ok(x) => x,
            Err(e) => {
                o.fail("C03/message-aborted", format!("a message carrying a {:?}-tampered entry made sync_process_message fail: {e:?} – the rest of the message must still be processed", c.tamper));
                return Ok(());
            }
        };
        // expected: exactly the valid entries, in order, through the model
        let mut expected_events = vec![];
        for (e, ok) in &values {
            if *ok && model.apply(e).is_some() {
                expected_events.push(e.clone());
            }
        }
        let after = act::dump(&h, ns).await?;
        let events = act::drain(&rx);
        if after != model.dump() {
            let sig = if !valid && after.contains(&offered) && !before.contains(&offered) { "C03/message-stores-invalid" } else { "C03/message-store-state" };
            o.fail(
                sig,
                format!(
                    "message with {:?}-tampered {} (valid={valid}) at position {at} of {} values: replica {} -> {}, expected {}",
                    c.tamper,
                    describe(&offered),
                    values.len(),
                    describe_all(&before),
                    describe_all(&after),
                    describe_all(&model.dump())
                ),
            );
            return Ok(());
        }
        let mut got_events = vec![];
        for ev in &events {
            match ev {
                Event::RemoteInsert { entry, from: f, remote_content_status, should_download, namespace } => {
                    if *f != from || *remote_content_status != status || !*should_download || *namespace != ns {
                        o.fail("C03/event-fields", format!("event for {} carries from/status/download/namespace = {:?}/{:?}/{}/{}", describe(entry), &f[..2], remote_content_status, should_download, namespace));
                    }
                    got_events.push(entry.clone());
                }
                Event::LocalInsert { .. } => o.fail("C03/event-fields", "a LocalInsert event for a remote entry"),
            }
        }
        if got_events != expected_events {
            o.fail(
                "C03/events",
                format!("{:?}-tampered (valid={valid}): events {} expected {}", c.tamper, describe_all(&got_events), describe_all(&expected_events)),
            );
            return Ok(());
        }
        if outcome.num_recv != values.len() {
            o.fail("C03/num-recv", format!("num_recv {} for {} values", outcome.num_recv, values.len()));
        }
        // never more entries (or bytes) counted as added by peers than were valid and actually applied
        let counted_after = counted(&h);
        let applied_len: u64 = expected_events.iter().map(|e| e.content_len()).fold(0u64, |a, b| a.saturating_add(b));
        if counted_after.0 - counted_before.0 > expected_events.len() as u64 || counted_after.1.saturating_sub(counted_before.1) > applied_len {
            o.fail(
                "C03/counted-as-inserted",
                format!(
                    "message with {:?}-tampered {} (valid={valid}) among {} values: the actor's counters of entries added by peers went up by {} entries / {} bytes, but only {} entries / {} bytes were valid and applied",
                    c.tamper,
                    describe(&offered),
                    values.len(),
                    counted_after.0 - counted_before.0,
                    counted_after.1.saturating_sub(counted_before.1),
                    expected_events.len(),
                    applied_len
                ),
            );
        }
        let _ = h.shutdown().await.map(|mut s| {
            if let Err(e) = self_consistent(&mut s, ns) {
                o.fail("C03/message-consistency", e);
            }
            // nothing may have been filed under any other document of the store either
            match foreign_documents_hold_something(&mut s) {
                Ok(Some(e)) => o.fail("C03/message-entry-in-another-document", format!("message with {:?}-tampered {}: {e}", c.tamper, describe(&offered))),
                Ok(None) => {}
                Err(e) => o.fail("C03/harness-error", e),
            }
        });
        Ok(())
    });
    drop(h);
    out
}
