//! C09 Wire and storage encodings round-trip and never crash on hostile bytes.

use std::str::FromStr;

use bytes::BytesMut;
use futures_util::{SinkExt, StreamExt};
use iroh_docs::{
    net::AbortReason,
    store::Store,
    sync::ProtocolMessage,
    verif::{
        self,
        net::{Frame, FrameCodec, MAX_MESSAGE_SIZE},
    },
    Author, AuthorHeads, Capability, DocTicket, NamespaceSecret, SignedEntry,
};
use iroh_tickets::Ticket;
use proptest::{collection::vec, prelude::*};
use serde::{Deserialize, Serialize};
use tokio_util::codec::{Decoder, FramedRead, FramedWrite};

use super::c15::{to_policy, PSpec, FSpec};
use crate::{
    common::*,
    engine::{idx, Ctx, Outcome, Prop, Tier},
    gen::{egen, pools, sync_config, to_espec, EGen, Pools},
    targets::{run_target, TARGETS},
    wire::{encode_signed_entry_raw, run_session, signatures_of},
};

pub struct C09;

#[derive(Serialize, Deserialize, Clone, Debug)]
pub struct FramesCase {
    pub pools: Pools,
    pub a: Vec<EGen>,
    pub b: Vec<EGen>,
    pub config: Option<(usize, usize)>,
    /// append an abort frame with this reason
    pub abort: Option<u8>,
    pub cuts: Vec<u16>,
    /// extra cuts 1..=3 bytes after the start of a frame (inside its length prefix)
    #[serde(default)]
    pub near_cuts: Vec<(u16, u8)>,
    pub corrupt_mask: u8,
    pub truncate_at: u16,
    /// append a crafted Sync frame with this many fingerprint parts and one item part with this many values (list
    /// lengths on both sides of the one-byte / two-byte varint boundary at 128)
    #[serde(default)]
    pub big: Option<(u16, u16)>,
}

#[derive(Serialize, Deserialize, Clone, Debug)]
pub struct AddrSpec {
    pub key: u8,
    pub relay: Option<u8>,
    pub ips: Vec<(bool, u16)>,
}

#[derive(Serialize, Deserialize, Clone, Debug)]
pub struct ValuesCase {
    pub pools: Pools,
    pub entries: Vec<EGen>,
    pub raw_ts: u64,
    pub raw_len: u64,
    pub secret: [u8; 32],
    pub cap_write: bool,
    pub nodes: Vec<AddrSpec>,
    pub policy: PSpec,
    pub heads: Vec<(u8, u64)>,
}

#[derive(Serialize, Deserialize, Clone, Debug)]
pub enum Mutation {
    Set(u16, u8),
    Flip(u16, u8),
    Insert(u16, u8),
    Delete(u16),
    Truncate(u16),
    Duplicate(u16, u16),
}

#[derive(Serialize, Deserialize, Clone, Debug)]
pub struct HostileCase {
    pub target: u8,
    /// None: random bytes; Some(seed selector): a valid encoding, mutated
    pub valid_seed: Option<u8>,
    #[serde(with = "hexbytes")]
    pub bytes: Vec<u8>,
    pub mutations: Vec<Mutation>,
}

#[derive(Serialize, Deserialize, Clone, Debug)]
pub enum Case {
    /// the three golden snapshots of the repository's test-suite
    Golden,
    Frames(FramesCase),
    Values(ValuesCase),
    Hostile(HostileCase),
}

fn mutation() -> impl Strategy<Value = Mutation> {
    prop_oneof![
        3 => (any::<u16>(), any::<u8>()).prop_map(|(p, v)| Mutation::Set(p, v)),
        3 => (any::<u16>(), 0u8..8).prop_map(|(p, b)| Mutation::Flip(p, b)),
        1 => (any::<u16>(), any::<u8>()).prop_map(|(p, v)| Mutation::Insert(p, v)),
        1 => any::<u16>().prop_map(Mutation::Delete),
        1 => any::<u16>().prop_map(Mutation::Truncate),
        1 => (any::<u16>(), any::<u16>()).prop_map(|(p, n)| Mutation::Duplicate(p, n)),
    ]
}

impl Prop for C09 {
    type Case = Case;
    const ID: &'static str = "C09";

    fn rule() -> String {
        "(frames) transcripts of real sessions between generated replicas are wrapped in Init/Sync(/Abort) frames, written with the \
         real encoder through FramedWrite::send, concatenated, cut at 1..=8 generated split points (incl. inside the length \
         prefix) and fed chunk-wise to the real decoder: same frame sequence, never a bogus frame after a strict prefix, oversized \
         length prefix = error, truncation = error of FramedRead, and single-byte corruption at up to 272 offsets never panics and \
         yields only re-encodable frames; (values) SignedEntry / Author / NamespaceSecret / AuthorId / NamespaceId / head reports against an independent byte-layout \
         encoder and the suite's three golden snapshots, DocTicket (>= 1 node, bytes and string form), Capability (serde and raw), \
         DownloadPolicy, AuthorHeads round-trips; (hostile) random bytes and mutated valid encodings into each of the ten decoder \
         targets shared with the libFuzzer harness (no panic; Ok(v) => re-encoding round-trips). non-trivial = frames: >= 2 frames \
         and a cut strictly inside a frame; hostile: the input got past the outermost decoder (a value was produced) or is a \
         mutated valid encoding; values: always; distinct by serialised case"
            .into()
    }

    fn cases(tier: Tier) -> u64 {
        tier.pick(300_000, 3_000_000)
    }

    fn enumerate(_tier: Tier) -> Vec<Case> {
        vec![Case::Golden]
    }

    fn strategy(tier: Tier) -> BoxedStrategy<Case> {
        let max = tier.pick(10, 30);
        let frames = (
            pools(8),
            vec(egen(), 0..=max),
            vec(egen(), 0..=max),
            sync_config(),
            prop::option::weighted(0.3, 0u8..3),
            vec(any::<u16>(), 1..=8),
            vec((any::<u16>(), 1u8..=3), 0..=2),
            1u8..=255,
            (any::<u16>(), prop::option::weighted(0.04, (prop_oneof![Just(0u16), Just(127), Just(128), Just(129), 0u16..300], prop_oneof![Just(0u16), Just(127), Just(128), Just(129), 0u16..300]))),
        )
            .prop_map(|(pools, a, b, config, abort, cuts, near_cuts, corrupt_mask, (truncate_at, big))| Case::Frames(FramesCase { pools, a, b, config, abort, cuts, near_cuts, corrupt_mask, truncate_at, big }));
        let addr = (0u8..6, prop::option::of(0u8..3), vec((any::<bool>(), any::<u16>()), 0..=3)).prop_map(|(key, relay, ips)| AddrSpec { key, relay, ips });
        // filter bytes: random, or text-like with blanks / line ends / ':' / a non-breaking space / non-UTF-8 at the edges
        let fbytes = prop_oneof![
            1 => vec(any::<u8>(), 0..6),
            1 => vec(prop::sample::select(vec![b' ', b'\t', b'\n', b'\r', b'a', b':', 0xC2, 0xA0, 0xFF, 0x00]), 0..6),
        ];
        let fsp = (any::<bool>(), fbytes).prop_map(|(exact, bytes)| FSpec { exact, bytes });
        let values = (
            pools(6),
            vec(egen(), 1..=4),
            prop_oneof![Just(0u64), Just(127), Just(128), Just(16383), Just(16384), Just(u64::MAX), any::<u64>()],
            prop_oneof![Just(0u64), Just(1), Just(127), Just(128), any::<u64>()],
            any::<[u8; 32]>(),
            any::<bool>(),
            vec(addr, 1..=4),
            (any::<bool>(), vec(fsp, 0..=4)).prop_map(|(nothing_except, filters)| PSpec { nothing_except, filters }),
            vec((0u8..20, any::<u64>()), 0..=8),
        )
            .prop_map(|(pools, entries, raw_ts, raw_len, secret, cap_write, nodes, policy, heads)| Case::Values(ValuesCase { pools, entries, raw_ts, raw_len, secret, cap_write, nodes, policy, heads }));
        let hostile = (
            0u8..TARGETS.len() as u8,
            prop::option::weighted(0.6, any::<u8>()),
            prop_oneof![3 => vec(any::<u8>(), 0..64), 1 => vec(any::<u8>(), 64..512)],
            vec(mutation(), 1..=4),
        )
            .prop_map(|(target, valid_seed, bytes, mutations)| Case::Hostile(HostileCase { target, valid_seed, bytes, mutations }));
        prop_oneof![2 => frames, 2 => values, 16 => hostile].boxed()
    }

    fn check(ctx: &mut Ctx, case: &Case) -> Outcome {
        let mut o = Outcome::default();
        let r = match case {
            Case::Golden => {
                o.class("golden-snapshots");
                o.nontrivial = true;
                match golden_checks() {
                    Ok(()) => Ok(()),
                    Err(e) => {
                        o.fail("C09/golden-snapshot", e);
                        Ok(())
                    }
                }
            }
            Case::Frames(f) => check_frames(ctx, f, &mut o),
            Case::Values(v) => check_values(v, &mut o),
            Case::Hostile(h) => check_hostile(h, &mut o),
        };
        verif::set_sync_config(None);
        verif::set_clock(None);
        if let Err(e) = r {
            o.fail("C09/harness-error", e);
        }
        o
    }

    fn assumptions() -> Vec<String> {
        vec![
            "the encoder is only exercised the way the crate uses it (FramedWrite::send, i.e. into an empty buffer)".into(),
            "libFuzzer campaigns over the same target bodies run in the thorough tier (fuzz/run-fuzz.sh); the quick tier drives them with proptest byte generators".into(),
        ]
    }
}

fn abort_reason(i: u8) -> AbortReason {
    match i % 3 {
        0 => AbortReason::NotFound,
        1 => AbortReason::AlreadySyncing,
        _ => AbortReason::InternalServerError,
    }
}

/// Decode everything `FramedRead` yields from `bytes`: (frames as postcard, ended with error?)
fn read_all(rt: &tokio::runtime::Runtime, bytes: &[u8]) -> (Vec<Vec<u8>>, bool) {
    rt.block_on(async {
        let mut r = FramedRead::new(bytes, FrameCodec::default());
        let mut out = vec![];
        let mut err = false;
        while let Some(item) = r.next().await {
            match item {
                Ok(f) => {
                    // a frame that decodes must be re-encodable
                    if crate::targets::reencode_frame(&f).is_err() {
                        err = true;
                        out.push(b"NOT-REENCODABLE".to_vec());
                        break;
                    }
                    out.push(f.to_postcard())
                }
                Err(_) => {
                    err = true;
                    break;
                }
            }
        }
        (out, err)
    })
}

fn check_frames(ctx: &mut Ctx, c: &FramesCase, o: &mut Outcome) -> R<()> {
    o.class("frames");
    let keys = c.pools.keys();
    let authors = c.pools.authors();
    let nssec = namespace(c.pools.ns).clone();
    let ns = nssec.id();
    let ea: Vec<SignedEntry> = c.a.iter().map(|e| sign(&nssec, &to_espec(e, &authors, &keys))).collect();
    let eb: Vec<SignedEntry> = c.b.iter().map(|e| sign(&nssec, &to_espec(e, &authors, &keys))).collect();
    verif::set_clock(Some(T0 + 3));
    verif::set_sync_config(c.config);
    let mut sa = Store::memory();
    let mut sb = Store::memory();
    if populate(&ctx.rt, &mut sa, &nssec, &ea).is_err() || populate(&ctx.rt, &mut sb, &nssec, &eb).is_err() {
        o.class("skipped/ingress-disagrees-with-model");
        return Ok(());
    }
    let t = run_session(&ctx.rt, &mut sa, &mut sb, ns, 200)?;
    let mut frames: Vec<Frame> = vec![];
    for (i, m) in t.msgs.iter().enumerate() {
        let pm: ProtocolMessage = es(postcard::from_bytes(m))?;
        frames.push(if i == 0 { Frame::init(ns, pm) } else { Frame::sync(pm) });
    }
    if let Some((nparts, nvalues)) = c.big {
        use crate::wire::{MFingerprint, MMessage, MPart, MRange, MRangeFingerprint, MRangeItem};
        o.class("frames/crafted-frame-with-long-lists");
        if nparts >= 128 || nvalues >= 128 {
            o.class("frames/list-of->=128-elements");
        }
        let id = |i: u16| iroh_docs::RecordIdentifier::new(ns, author(0).id(), i.to_be_bytes());
        let mut parts: Vec<MPart> = (0..nparts)
            .map(|i| MPart::RangeFingerprint(MRangeFingerprint { range: MRange { x: id(i), y: id(i + 1) }, fingerprint: MFingerprint([i as u8; 32]) }))
            .collect();
        let values: Vec<(SignedEntry, iroh_docs::ContentStatus)> = (0..nvalues)
            .map(|i| (sign(&nssec, &ESpec { a: (i % 3) as u8, k: i.to_be_bytes().to_vec(), t: T0 + i as u64, c: (i % 4) as u8 }), iroh_docs::ContentStatus::Missing))
            .collect();
        parts.push(MPart::RangeItem(MRangeItem { range: MRange { x: id(0), y: id(0) }, values, have_local: nparts % 2 == 0 }));
        frames.push(Frame::sync(MMessage { parts }.to_real()));
    }
    if let Some(r) = c.abort {
        frames.push(Frame::abort(abort_reason(r)));
    }
    let want: Vec<Vec<u8>> = frames.iter().map(|f| f.to_postcard()).collect();
    // encode exactly as the crate does
    let (stream, boundaries) = ctx.rt.block_on(async {
        let mut sink: Vec<u8> = vec![];
        let mut bounds = vec![0usize];
        {
            let mut w = FramedWrite::new(&mut sink, FrameCodec::default());
            for f in &frames {
                es(w.send(f.clone()).await)?;
                bounds.push(w.get_ref().len());
            }
        }
        Ok::<_, String>((sink, bounds))
    })?;
    // every frame: 4-byte BE length + postcard
    for (i, w) in want.iter().enumerate() {
        let seg = &stream[boundaries[i]..boundaries[i + 1]];
        if seg.len() != 4 + w.len() || seg[..4] != (w.len() as u32).to_be_bytes() || &seg[4..] != &w[..] {
            o.fail("C09/frame-layout", format!("frame {i}: {} bytes on the wire for a {}-byte message", seg.len(), w.len()));
            return Ok(());
        }
    }
    // cut points
    let mut cuts: Vec<usize> = c.cuts.iter().map(|x| idx(*x, stream.len() + 1)).collect();
    for (f, d) in &c.near_cuts {
        let b = boundaries[idx(*f, boundaries.len() - 1)];
        cuts.push((b + *d as usize).min(stream.len()));
    }
    cuts.push(stream.len());
    cuts.sort();
    cuts.dedup();
    let inside = cuts.iter().any(|c| !boundaries.contains(c));
    let in_prefix = cuts.iter().any(|c| boundaries.iter().any(|b| c > b && *c < b + 4));
    if in_prefix {
        o.class("frames/cut-inside-length-prefix");
    }
    if frames.len() >= 2 && inside {
        o.nontrivial = true;
    }
    let mut codec = FrameCodec::default();
    let mut buf = BytesMut::new();
    let mut got: Vec<Vec<u8>> = vec![];
    let mut at = 0usize;
    for cut in &cuts {
        buf.extend_from_slice(&stream[at..*cut]);
        at = *cut;
        loop {
            match codec.decode(&mut buf) {
                Ok(Some(f)) => got.push(f.to_postcard()),
                Ok(None) => break,
                Err(e) => {
                    o.fail("C09/chunked-decode-error", format!("decoder failed on a valid stream cut at {:?}: {e:?}", cuts));
                    return Ok(());
                }
            }
        }
        // after a strict prefix: exactly the frames that are complete, never a bogus one
        let complete = boundaries.iter().skip(1).filter(|b| **b <= at).count();
        if got.len() != complete || got[..] != want[..complete] {
            o.fail("C09/chunked-decode", format!("after {at} of {} bytes (cuts {:?}) the decoder yielded {} frames, {} are complete", stream.len(), cuts, got.len(), complete));
            return Ok(());
        }
    }
    if got != want {
        o.fail("C09/chunked-decode", "frame sequence differs".to_string());
        return Ok(());
    }
    // truncation at EOF is an error, not a frame and not a clean end
    if !stream.is_empty() {
        let t = idx(c.truncate_at, stream.len());
        let (frames_t, err) = read_all(&ctx.rt, &stream[..t]);
        let complete = boundaries.iter().skip(1).filter(|b| **b <= t).count();
        let at_boundary = boundaries.contains(&t);
        if frames_t[..] != want[..complete] || err == at_boundary {
            o.fail(
                "C09/truncation",
                format!("stream of {} bytes truncated at {t} (frame boundary: {at_boundary}): {} frames, error={err}; expected {complete} frames and error={}", stream.len(), frames_t.len(), !at_boundary),
            );
            return Ok(());
        }
    }
    // oversized length prefix
    {
        let mut bad = BytesMut::new();
        bad.extend_from_slice(&((MAX_MESSAGE_SIZE as u32) + 1 + c.corrupt_mask as u32).to_be_bytes());
        bad.extend_from_slice(&stream[..stream.len().min(64)]);
        if FrameCodec::default().decode(&mut bad).is_ok() {
            o.fail("C09/oversized-accepted", "a length prefix above MAX_MESSAGE_SIZE was not rejected".to_string());
            return Ok(());
        }
        let mut ok = BytesMut::new();
        ok.extend_from_slice(&(MAX_MESSAGE_SIZE as u32).to_be_bytes());
        ok.extend_from_slice(&[0u8; 16]);
        match FrameCodec::default().decode(&mut ok) {
            Ok(None) => {}
            other => {
                o.fail("C09/max-size-boundary", format!("a length prefix of exactly MAX_MESSAGE_SIZE with 16 bytes available: {:?}", other.map(|x| x.is_some()).map_err(|e| e.to_string())));
                return Ok(());
            }
        }
    }
    // single-byte corruption: never a panic, only re-encodable frames
    let n = stream.len();
    let mut offsets: Vec<usize> = (0..n.min(16)).collect();
    let step = (n / 256).max(1);
    offsets.extend((16..n).step_by(step));
    let mut corrupted = stream.clone();
    for off in offsets {
        corrupted[off] ^= c.corrupt_mask;
        let (fr, _err) = read_all(&ctx.rt, &corrupted);
        if fr.iter().any(|f| f == b"NOT-REENCODABLE") {
            o.fail("C09/corruption-bogus-frame", format!("corrupting byte {off} with mask {:02x} produced a frame that does not re-encode", c.corrupt_mask));
            return Ok(());
        }
        corrupted[off] ^= c.corrupt_mask;
    }
    Ok(())
}

fn relay_url(i: u8) -> iroh::RelayUrl {
    ["https://relay.example.org", "http://10.0.0.1:8080", "https://a.b.c.d.example:443/path"][i as usize % 3].parse().expect("relay url")
}

fn check_values(c: &ValuesCase, o: &mut Outcome) -> R<()> {
    o.class("values");
    o.nontrivial = true;
    let keys = c.pools.keys();
    let authors = c.pools.authors();
    let nssec = namespace(c.pools.ns).clone();
    // signed entries: independent layout, arbitrary timestamps and lengths
    for e in &c.entries {
        let mut spec = to_espec(e, &authors, &keys);
        spec.t = c.raw_ts;
        let (hash, _) = content(spec.c);
        let se = SignedEntry::from_parts(&nssec, author(spec.a), &spec.k, iroh_docs::Record::new(hash, if spec.c == 0 { 0 } else { c.raw_len.max(1) }, spec.t));
        let real = es(postcard::to_stdvec(&se))?;
        let (asig, nsig) = signatures_of(&se);
        let mine = encode_signed_entry_raw(&asig, &nsig, nssec.id().as_bytes(), author(spec.a).id().as_bytes(), &spec.k, se.content_len(), hash.as_bytes(), spec.t);
        if real != mine {
            o.fail("C09/pinned-signed-entry-layout", format!("postcard encoding {} differs from the pinned layout {}", hex::encode(&real), hex::encode(&mine)));
            return Ok(());
        }
        // the signatures sit where the layout says: author first, then namespace, both over the canonical bytes
        let f = crate::wire::Fields::of(&se);
        if !f.valid(nssec.id().as_bytes(), u64::MAX - FUTURE_SHIFT) {
            o.fail("C09/pinned-signature-order", "author/namespace signatures are not at their pinned positions".to_string());
            return Ok(());
        }
        let back: SignedEntry = es(postcard::from_bytes(&real))?;
        if back != se {
            o.fail("C09/signed-entry-roundtrip", describe(&se));
            return Ok(());
        }
    }
    // key pairs: varint(32) + 32 bytes
    let a = Author::from_bytes(&c.secret);
    let n = NamespaceSecret::from_bytes(&c.secret);
    let mut want = vec![32u8];
    want.extend_from_slice(&c.secret);
    if es(postcard::to_stdvec(&a))? != want || es(postcard::to_stdvec(&n))? != want {
        o.fail("C09/pinned-key-layout", "Author / NamespaceSecret do not encode as 0x20 + 32 secret bytes".to_string());
        return Ok(());
    }
    let a2: Author = es(postcard::from_bytes(&want))?;
    let n2: NamespaceSecret = es(postcard::from_bytes(&want))?;
    if a2.to_bytes() != c.secret || n2.to_bytes() != c.secret || a2.id() != a.id() || n2.id() != n.id() {
        o.fail("C09/key-roundtrip", "key pair changed by encode/decode".to_string());
        return Ok(());
    }
    // the public halves: the 32 id bytes as they are (no length prefix) - that is also how they sit inside entries,
    // tickets, head reports and every request that names an author or a document
    if es(postcard::to_stdvec(&a.id()))? != a.id().as_bytes().to_vec() || es(postcard::to_stdvec(&n.id()))? != n.id().as_bytes().to_vec() {
        o.fail("C09/pinned-key-layout", format!("AuthorId / NamespaceId do not encode as their 32 bytes: {} / {}", hex::encode(es(postcard::to_stdvec(&a.id()))?), hex::encode(es(postcard::to_stdvec(&n.id()))?)));
        return Ok(());
    }
    let ida: iroh_docs::AuthorId = es(postcard::from_bytes(a.id().as_bytes()))?;
    let idn: iroh_docs::NamespaceId = es(postcard::from_bytes(n.id().as_bytes()))?;
    if ida != a.id() || idn != n.id() {
        o.fail("C09/key-roundtrip", "an id changed by decode".to_string());
        return Ok(());
    }
    // a head report: varint(count), then per head the varint timestamp and the 32 author id bytes (read back here by an
    // independent decoder; the order of the heads is the encoder's business)
    {
        let mut heads = iroh_docs::AuthorHeads::default();
        let mut want: std::collections::BTreeMap<[u8; 32], u64> = Default::default();
        for (i, e) in c.entries.iter().enumerate() {
            let id = Author::from_bytes(&[i as u8 ^ c.secret[0]; 32]).id();
            let t = if i % 2 == 0 { c.raw_ts } else { crate::gen::ts_of(e.t) };
            heads.insert(id, t);
            let h = want.entry(id.to_bytes()).or_insert(0);
            *h = (*h).max(t);
        }
        let bytes = es(heads.encode(None))?;
        let mut got: std::collections::BTreeMap<[u8; 32], u64> = Default::default();
        let mut pos = 0usize;
        let mut read_varint = |pos: &mut usize| -> Option<u64> {
            let mut v = 0u64;
            let mut shift = 0;
            loop {
                let b = *bytes.get(*pos)?;
                *pos += 1;
                v |= ((b & 0x7F) as u64) << shift;
                if b & 0x80 == 0 {
                    return Some(v);
                }
                shift += 7;
                if shift > 63 {
                    return None;
                }
            }
        };
        let layout_ok = (|| {
            let n = read_varint(&mut pos)?;
            for _ in 0..n {
                let t = read_varint(&mut pos)?;
                let id: [u8; 32] = bytes.get(pos..pos + 32)?.try_into().ok()?;
                pos += 32;
                got.insert(id, t);
            }
            Some(pos == bytes.len())
        })();
        if layout_ok != Some(true) || got != want {
            o.fail("C09/pinned-heads-layout", format!("a head report of {} heads encodes as {} which is not varint(count) + count x (varint timestamp + 32 id bytes) of exactly these heads", want.len(), hex::encode(&bytes)));
            return Ok(());
        }
    }
    // capability
    let cap = if c.cap_write { Capability::Write(n.clone()) } else { Capability::Read(n.id()) };
    let (k, raw) = cap.raw();
    let back = es(Capability::from_raw(k, &raw))?;
    let serde_back: Capability = es(postcard::from_bytes(&es(postcard::to_stdvec(&cap))?))?;
    if back.raw() != (k, raw) || serde_back.raw() != (k, raw) || back.id() != n.id() || k != if c.cap_write { 1 } else { 2 } {
        o.fail("C09/capability-roundtrip", format!("kind {k}"));
        return Ok(());
    }
    // ticket
    let nodes: Vec<iroh::EndpointAddr> = c
        .nodes
        .iter()
        .map(|s| {
            let mut addr = iroh::EndpointAddr::new(iroh::SecretKey::from_bytes(&[s.key + 1; 32]).public());
            if let Some(r) = s.relay {
                addr = addr.with_relay_url(relay_url(r));
            }
            for (v6, port) in &s.ips {
                let sa: std::net::SocketAddr = if *v6 { format!("[2001:db8::{:x}]:{}", port % 999 + 1, port).parse().unwrap() } else { format!("192.0.2.{}:{}", port % 250 + 1, port).parse().unwrap() };
                addr = addr.with_ip_addr(sa);
            }
            addr
        })
        .collect();
    let ticket = DocTicket::new(cap.clone(), nodes.clone());
    let bytes = ticket.encode_bytes();
    let t2 = es(DocTicket::decode_bytes(&bytes))?;
    let s = ticket.to_string();
    let t3 = es(DocTicket::from_str(&s))?;
    if t2.nodes != nodes || t3.nodes != nodes || t2.capability.raw() != cap.raw() || t3.capability.raw() != cap.raw() || t3.encode_bytes() != bytes {
        o.fail("C09/ticket-roundtrip", format!("ticket {s} changed by encode/decode"));
        return Ok(());
    }
    if !s.starts_with("doc") {
        o.fail("C09/ticket-prefix", s);
        return Ok(());
    }
    // a ticket without nodes is not a ticket
    let empty = DocTicket::new(cap.clone(), vec![]);
    if DocTicket::decode_bytes(&empty.encode_bytes()).is_ok() || DocTicket::from_str(&empty.to_string()).is_ok() {
        o.fail("C09/ticket-empty-nodes-accepted", "a ticket with no nodes decoded".to_string());
        return Ok(());
    }
    // policy
    let p = to_policy(&c.policy);
    let pb: iroh_docs::store::DownloadPolicy = es(postcard::from_bytes(&es(postcard::to_stdvec(&p))?))?;
    if pb != p {
        o.fail("C09/policy-roundtrip", format!("{:?}", p));
        return Ok(());
    }
    // every filter survives its textual form
    let filters = match &p {
        iroh_docs::store::DownloadPolicy::NothingExcept(f) | iroh_docs::store::DownloadPolicy::EverythingExcept(f) => f.clone(),
    };
    for f in &filters {
        let text = f.to_string();
        match iroh_docs::store::FilterKind::from_str(&text) {
            Ok(back) if back == *f => {}
            other => {
                o.fail("C09/filter-text-roundtrip", format!("filter {:?} displays as {:?}, which parses to {:?}", f, text, other.map_err(|e| e.to_string())));
                return Ok(());
            }
        }
    }
    // heads (no limit)
    let mut h = AuthorHeads::default();
    for (slot, ts) in &c.heads {
        let mut id = [0u8; 32];
        id[0] = *slot;
        h.insert(iroh_docs::AuthorId::from(&id), *ts);
    }
    let hb = es(AuthorHeads::decode(&es(h.encode(None))?))?;
    if hb != h {
        o.fail("C09/heads-roundtrip", format!("{} authors -> {}", h.len(), hb.len()));
    }
    Ok(())
}

pub fn golden_checks() -> R<()> {
    let author = Author::from_bytes(&[0xa1; 32]);
    let namespace = NamespaceSecret::from_bytes(&[0xb2; 32]);
    if hex::encode(es(postcard::to_stdvec(&author))?) != "20a1a1a1a1a1a1a1a1a1a1a1a1a1a1a1a1a1a1a1a1a1a1a1a1a1a1a1a1a1a1a1a1" {
        return Err("Author golden snapshot".into());
    }
    if hex::encode(es(postcard::to_stdvec(&namespace))?) != "20b2b2b2b2b2b2b2b2b2b2b2b2b2b2b2b2b2b2b2b2b2b2b2b2b2b2b2b2b2b2b2b2" {
        return Err("NamespaceSecret golden snapshot".into());
    }
    let se = SignedEntry::from_parts(&namespace, &author, b"wire-format-test", iroh_docs::Record::new(iroh_blobs::Hash::EMPTY, 0, 1_700_000_000_000_000u64));
    let want = "4b523f1b6d9b00a4779fc9f8f105a9e36f062ceb7d511b632905782042ad30acb6dd07bfced4ecd5f3aa58321e8ace63f48f988ed8461bfdcd8b0e902187a10e228ddc6998329b7faa64875fe80da36406ea8d87e3e57bb048323e9cb66c0b343b60c4e709fb978b878e37d0c362edfc06c8cdc774c8b29d94e48eaa06cca60f5055154f42065ea5a1bea05463826be2684eb92df92c100027aabaae57ca554207bc7cbcb5636375fa1d82434d466724d92377f53b980695dd49d26d0ce12205a5776972652d666f726d61742d7465737400af1349b9f5f9a1a6a0404dea36dcc9499bcb25c9adc112b7cc9a93cae41f32628080f9c0c1c48203";
    if hex::encode(es(postcard::to_stdvec(&se))?) != want {
        return Err("SignedEntry golden snapshot".into());
    }
    Ok(())
}

/// A valid encoding for each target, selected by `sel`.
pub fn valid_seed(target: &str, sel: u8) -> Vec<u8> {
    let nssec = namespace(0);
    let e1 = sign(nssec, &ESpec { a: sel % 3, k: vec![b'a', sel % 4], t: T0 + (sel % 8) as u64, c: sel % 4 });
    let e2 = sign(nssec, &ESpec { a: (sel / 3) % 3, k: vec![], t: T0, c: 1 });
    let msg = {
        use crate::wire::*;
        let lo = iroh_docs::RecordIdentifier::new(nssec.id(), author(0).id(), b"");
        let hi = iroh_docs::RecordIdentifier::new(nssec.id(), author(1).id(), b"zz");
        MMessage {
            parts: vec![
                MPart::RangeFingerprint(MRangeFingerprint { range: MRange { x: lo.clone(), y: hi.clone() }, fingerprint: MFingerprint([sel; 32]) }),
                MPart::RangeItem(MRangeItem { range: MRange { x: hi, y: lo }, values: vec![(e1.clone(), iroh_docs::ContentStatus::Complete), (e2.clone(), iroh_docs::ContentStatus::Missing)], have_local: sel % 2 == 0 }),
            ],
        }
        .to_real()
    };
    let frame = match sel % 3 {
        0 => Frame::init(nssec.id(), msg.clone()),
        1 => Frame::sync(msg.clone()),
        _ => Frame::abort(abort_reason(sel)),
    };
    let cap = if sel % 2 == 0 { Capability::Write(nssec.clone()) } else { Capability::Read(nssec.id()) };
    let ticket = DocTicket::new(cap.clone(), vec![iroh::EndpointAddr::new(iroh::SecretKey::from_bytes(&[sel | 1; 32]).public()).with_relay_url(relay_url(sel))]);
    match target {
        "frame_stream" => {
            let p = frame.to_postcard();
            let mut v = vec![sel];
            for _ in 0..(1 + sel % 3) {
                v.extend_from_slice(&(p.len() as u32).to_be_bytes());
                v.extend_from_slice(&p);
            }
            v
        }
        "frame_message" => frame.to_postcard(),
        "signed_entry" => postcard::to_stdvec(&e1).unwrap(),
        "protocol_message" => postcard::to_stdvec(&msg).unwrap(),
        "author_heads" => {
            let mut h = AuthorHeads::default();
            for i in 0..(sel % 5) {
                h.insert(author(i).id(), T0 + i as u64);
            }
            h.encode(None).unwrap()
        }
        "ticket_bytes" => ticket.encode_bytes(),
        "ticket_str" => ticket.to_string().into_bytes(),
        "capability" => {
            if sel % 4 < 2 {
                postcard::to_stdvec(&cap).unwrap()
            } else {
                let (k, b) = cap.raw();
                let mut v = vec![k];
                v.extend_from_slice(&b);
                v
            }
        }
        "download_policy" => postcard::to_stdvec(&to_policy(&PSpec { nothing_except: sel % 2 == 0, filters: vec![FSpec { exact: sel % 3 == 0, bytes: vec![sel, 0xFF] }, FSpec { exact: false, bytes: vec![] }] })).unwrap(),
        _ => format!("{}:{}:{}", if sel % 2 == 0 { "exact" } else { "prefix" }, if sel % 3 == 0 { "hex" } else { "utf8" }, if sel % 3 == 0 { "00ff61".to_string() } else { "a:b".to_string() }).into_bytes(),
    }
}

pub fn mutate(mut v: Vec<u8>, ms: &[Mutation]) -> Vec<u8> {
    for m in ms {
        match m {
            Mutation::Set(p, x) => {
                if !v.is_empty() {
                    let i = idx(*p, v.len());
                    v[i] = *x;
                }
            }
            Mutation::Flip(p, b) => {
                if !v.is_empty() {
                    let i = idx(*p, v.len());
                    v[i] ^= 1 << (b % 8);
                }
            }
            Mutation::Insert(p, x) => {
                let i = idx(*p, v.len() + 1);
                v.insert(i, *x);
            }
            Mutation::Delete(p) => {
                if !v.is_empty() {
                    let i = idx(*p, v.len());
                    v.remove(i);
                }
            }
            Mutation::Truncate(p) => {
                let i = idx(*p, v.len() + 1);
                v.truncate(i);
            }
            Mutation::Duplicate(p, n) => {
                if !v.is_empty() {
                    let i = idx(*p, v.len());
                    let len = idx(*n, (v.len() - i).min(64) + 1);
                    let seg: Vec<u8> = v[i..i + len].to_vec();
                    let at = i + len;
                    v.splice(at..at, seg);
                }
            }
        }
    }
    v
}

fn check_hostile(c: &HostileCase, o: &mut Outcome) -> R<()> {
    let target = TARGETS[c.target as usize % TARGETS.len()];
    let input = match c.valid_seed {
        None => {
            o.class("hostile/random-bytes");
            c.bytes.clone()
        }
        Some(sel) => {
            o.class("hostile/mutated-valid");
            o.nontrivial = true;
            mutate(valid_seed(target, sel), &c.mutations)
        }
    };
    match run_target(target, &input) {
        Ok(n) => {
            if n > 0 {
                o.nontrivial = true;
                o.class("hostile/decoded-a-value");
            }
        }
        Err(e) => o.fail(format!("C09/hostile/{target}"), format!("input {}: {e}", hex::encode(&input))),
    }
    Ok(())
}
