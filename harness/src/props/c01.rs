//! C01 Pairwise reconciliation converges to the join of both replicas.

use iroh_docs::{verif, SignedEntry};
use proptest::{collection::vec, prelude::*};
use serde::{Deserialize, Serialize};

use crate::{
    common::*,
    engine::{Ctx, Outcome, Prop, Tier},
    gen::{egen, pools, sync_config, to_espec, EGen, Pools},
    wire::{run_session, MMessage, MPart},
};

pub struct C01;

#[derive(Serialize, Deserialize, Clone, Debug)]
pub struct Case {
    pub pools: Pools,
    pub a: Vec<EGen>,
    pub b: Vec<EGen>,
    pub file_a: bool,
    pub file_b: bool,
    pub config: Option<(usize, usize)>,
    /// entries of other documents held by the same stores: (in A's store?, namespace slot, entry)
    #[serde(default)]
    pub others: Vec<(bool, u8, EGen)>,
    /// after the first session (and the silent second one) both sides change again and are reconciled once more
    #[serde(default)]
    pub phase2: Option<Phase2>,
    /// a crowd: besides their generated entries the two sides hold `CROWD[class_a]` / `CROWD[class_b]` entries of one author
    /// at the keys `'z' || i` (A: i < n_a, B: offset <= i < offset + n_b; every seventh of B's has other content) - deep
    /// recursion, hundreds of messages, long item lists; one initiator (by the parity of the offset), no second phase
    #[serde(default)]
    pub crowd: Option<(u8, u8, u16)>,
    /// which sides hold the document read-only (a replica without the write secret reconciles like any other)
    #[serde(default)]
    pub read_only: (bool, bool),
}

/// sizes around which a byte-sized counter, a chunked scan or a two-byte length prefix would show
pub const CROWD: [usize; 8] = [0, 127, 255, 256, 257, 1023, 1024, 1025];

fn crowd_entry(nssec: &iroh_docs::NamespaceSecret, a: u8, j: usize, other_content: bool) -> SignedEntry {
    sign(nssec, &ESpec { a, k: vec![b'z', (j >> 8) as u8, j as u8], t: T0 + 1, c: if other_content { 2 } else { 1 } })
}

#[derive(Serialize, Deserialize, Clone, Debug)]
pub struct Phase2 {
    /// remove the document and import it again (it is then empty) before the new entries are offered
    pub recreate_a: bool,
    pub recreate_b: bool,
    pub a: Vec<EGen>,
    pub b: Vec<EGen>,
    /// drop and reopen file-backed stores before the session
    pub reopen: bool,
}

impl Prop for C01 {
    type Case = Case;
    const ID: &'static str = "C01";

    fn rule() -> String {
        "two entry lists are applied through the remote-insert path to two fresh replicas (memory or file) of one document; a \
         session is driven message by message, once with each side initiating, under the default or a generated split-factor / \
         max-set-size; non-trivial = the starting states differ and (a deletion marker on one side is newer than a live entry it \
         prefixes on the other side, or both sides hold different values at one author+key, or the session needs >= 5 messages); \
         distinct by serialised case"
            .into()
    }

    fn cases(tier: Tier) -> u64 {
        tier.pick(40_000, 400_000)
    }

    fn strategy(tier: Tier) -> BoxedStrategy<Case> {
        let max = tier.pick(12, 40);
        // thorough: one pair in 50 with up to 160 entries per side (deeper range recursion)
        let big = tier.pick(12, 160);
        let side = move || prop_oneof![49 => vec(egen(), 0..=max), 1 => vec(egen(), 0..=big)];
        let base = (
            pools(8),
            side(),
            side(),
            prop::bool::weighted(0.15),
            prop::bool::weighted(0.15),
            sync_config(),
            prop_oneof![2 => Just(vec![]), 1 => vec((any::<bool>(), 0u8..6, egen()), 1..=6)],
            prop::option::weighted(0.3, (prop::bool::weighted(0.3), prop::bool::weighted(0.3), vec(egen(), 0..=6), vec(egen(), 0..=6), any::<bool>()))
                .prop_map(|p| p.map(|(recreate_a, recreate_b, a, b, reopen)| Phase2 { recreate_a, recreate_b, a, b, reopen })),
        )
            .prop_map(|(pools, a, b, file_a, file_b, config, others, phase2)| Case { pools, a, b, file_a, file_b, config, others, phase2, crowd: None, read_only: (false, false) })
            .boxed();
        let max_small = 6usize;
        let crowd = (pools(6), vec(egen(), 0..=max_small), vec(egen(), 0..=max_small), prop::bool::weighted(0.1), prop::bool::weighted(0.1), sync_config(), (0u8..8, 0u8..8, prop_oneof![Just(0u16), 0u16..1200]))
            .prop_map(|(pools, a, b, file_a, file_b, config, crowd)| Case { pools, a, b, file_a, file_b, config, others: vec![], phase2: None, crowd: Some(crowd), read_only: (false, false) });
        let base = (base, prop_oneof![3 => Just((false, false)), 1 => Just((true, false)), 1 => Just((false, true)), 1 => Just((true, true))]).prop_map(|(mut c, ro)| {
            c.read_only = ro;
            c
        });
        prop_oneof![600 => base, 1 => crowd].boxed()
    }

    fn check(ctx: &mut Ctx, case: &Case) -> Outcome {
        let mut o = Outcome::default();
        let r = check(ctx, case, &mut o);
        verif::set_sync_config(None);
        verif::set_clock(None);
        if let Err(e) = r {
            if e.starts_with("wire:") || e.contains("session: ") {
                o.fail("C01/session-failed", e);
            } else if e.starts_with("populate:") {
                // the ingress path disagrees with the model: that is C02's finding, do not double count
                o.class("skipped/ingress-disagrees-with-model");
            } else {
                o.fail("C01/harness-error", e);
            }
        }
        o
    }

    fn assumptions() -> Vec<String> {
        vec![
            "fingerprint collisions (XOR of blake3) are ignored".into(),
            "non-default parameters are reachable only through the verif-hooks SyncConfig override".into(),
        ]
    }
}

fn classify(o: &mut Outcome, ma: &Model, mb: &Model) {
    if ma == mb {
        o.class("equal-start");
        return;
    }
    let mut interesting = false;
    for (x, y) in [(ma, mb), (mb, ma)] {
        for ((a, k), e) in &x.m {
            if e.content_len() == 0 {
                // deletion marker newer than a live entry it prefixes on the other side
                if y.m.iter().any(|((a2, k2), e2)| {
                    a2 == a && k2.starts_with(k) && e2.content_len() != 0 && (e2.timestamp(), *e2.content_hash().as_bytes()) < (e.timestamp(), *e.content_hash().as_bytes())
                }) {
                    o.class("marker-newer-than-peer-live-entry");
                    interesting = true;
                }
            }
            if let Some(e2) = y.m.get(&(*a, k.clone())) {
                if e2 != e {
                    o.class("same-key-conflict");
                    interesting = true;
                }
            }
        }
    }
    if interesting {
        o.nontrivial = true;
    }
}

/// like `describe_all`, but a crowd is summarised by its size
fn brief(v: &[SignedEntry]) -> String {
    if v.len() > 60 {
        format!("[{} entries, the first {} and the last {}]", v.len(), describe(&v[0]), describe(&v[v.len() - 1]))
    } else {
        describe_all(v)
    }
}

/// entries of `a` that are missing in `b`, abbreviated
fn missing(a: &[SignedEntry], b: &[SignedEntry]) -> String {
    let d: Vec<SignedEntry> = a.iter().filter(|e| !b.contains(e)).take(6).cloned().collect();
    describe_all(&d)
}

fn check(ctx: &mut Ctx, c: &Case, o: &mut Outcome) -> R<()> {
    let keys = c.pools.keys();
    let authors = c.pools.authors();
    let nssec = namespace(c.pools.ns).clone();
    let ns = nssec.id();
    let ea: Vec<SignedEntry> = c.a.iter().map(|e| sign(&nssec, &to_espec(e, &authors, &keys))).collect();
    let mut ea = ea;
    let mut eb: Vec<SignedEntry> = c.b.iter().map(|e| sign(&nssec, &to_espec(e, &authors, &keys))).collect();
    let mut initiators = vec![true, false];
    if let Some((ca, cb, off)) = c.crowd {
        let (na, nb, off) = (CROWD[ca as usize % CROWD.len()], CROWD[cb as usize % CROWD.len()], off as usize);
        ea.extend((0..na).map(|j| crowd_entry(&nssec, authors[0], j, false)));
        eb.extend((off..off + nb).map(|j| crowd_entry(&nssec, authors[0], j, j % 7 == 0)));
        initiators = vec![off % 2 == 0];
        o.class("crowd(up-to-1025-entries-per-side)");
        if na + nb >= 255 {
            o.nontrivial = true;
        }
    }
    verif::set_clock(Some(T0 + 3));
    verif::set_sync_config(c.config);
    o.class(if c.config.is_none() { "config/default" } else { "config/other" });
    o.class(match (c.file_a, c.file_b) {
        (false, false) => "stores/mem-mem",
        (true, true) => "stores/file-file",
        _ => "stores/mixed",
    });
    let bound = 4 * (ea.len() + eb.len()) + 8;
    for initiator_is_a in initiators {
        let mut sa = AnyStore::new(ctx, c.file_a)?;
        let mut sb = AnyStore::new(ctx, c.file_b)?;
        let ma = populate_cap(&ctx.rt, &mut sa.store, &nssec, &ea, c.read_only.0)?;
        let mb = populate_cap(&ctx.rt, &mut sb.store, &nssec, &eb, c.read_only.1)?;
        if initiator_is_a && (c.read_only.0 || c.read_only.1) {
            o.class("a-side-holds-the-document-read-only");
        }
        if initiator_is_a {
            classify(o, &ma, &mb);
        }
        // unrelated documents in the same stores (different on each side) must neither leak into the session nor change
        let mut other_ids = vec![];
        let mut groups: std::collections::BTreeMap<(bool, u8), Vec<SignedEntry>> = Default::default();
        for (side_a, slot, e) in &c.others {
            let slot = *slot % N_NAMESPACES as u8;
            if slot == c.pools.ns % N_NAMESPACES as u8 {
                continue;
            }
            groups.entry((*side_a, slot)).or_default().push(sign(namespace(slot), &to_espec(e, &authors, &keys)));
        }
        for ((side_a, slot), entries) in &groups {
            let other = namespace(*slot);
            let st = if *side_a { &mut sa.store } else { &mut sb.store };
            populate(&ctx.rt, st, other, entries)?;
            if !other_ids.contains(&other.id()) {
                other_ids.push(other.id());
            }
        }
        if !other_ids.is_empty() {
            o.class("other-documents-in-the-stores");
        }
        let mut others_before = vec![];
        for id in &other_ids {
            others_before.push((dump(&mut sa.store, *id)?, dump(&mut sb.store, *id)?));
        }
        // the starting states are reachable replica states: take them from the stores themselves
        let da = dump(&mut sa.store, ns)?;
        let db = dump(&mut sb.store, ns)?;
        let want = Model::merge(da.iter().chain(db.iter())).dump();
        let label = if initiator_is_a { "A initiates" } else { "B initiates" };
        let t = if initiator_is_a {
            run_session(&ctx.rt, &mut sa.store, &mut sb.store, ns, bound + 1)?
        } else {
            run_session(&ctx.rt, &mut sb.store, &mut sa.store, ns, bound + 1)?
        };
        let ctxs = || {
            if da.len() + db.len() > 80 {
                return format!("{label}, config {:?}, crowd {:?}, A holds {} entries, B holds {}", c.config, c.crowd, da.len(), db.len());
            }
            format!(
                "{label}, config {:?}, A = {}, B = {}",
                c.config,
                describe_all(&da),
                describe_all(&db)
            )
        };
        o.count("sessions_run_to_completion", 2);
        o.count("messages_exchanged", t.msgs.len() as u64);
        if !t.completed {
            o.fail("C01/no-termination", format!("session still running after {} messages (bound {}); {}", t.msgs.len(), bound, ctxs()));
            break;
        }
        if t.msgs.len() >= 5 && da != db {
            o.class("rounds>=5-messages");
            o.nontrivial = true;
        }
        let fa = dump(&mut sa.store, ns)?;
        let fb = dump(&mut sb.store, ns)?;
        if fa != fb {
            o.fail("C01/diverged", format!("after one session A holds {} and B holds {} (only in A: {}; only in B: {}); {}", brief(&fa), brief(&fb), missing(&fa, &fb), missing(&fb, &fa), ctxs()));
            break;
        }
        if fa != want {
            o.fail("C01/not-the-merge", format!("both hold {} but the merge is {} (held but not in the merge: {}; in the merge but not held: {}); {}", brief(&fa), brief(&want), missing(&fa, &want), missing(&want, &fa), ctxs()));
            break;
        }
        if t.init_out.num_sent != t.resp_out.num_recv || t.init_out.num_recv != t.resp_out.num_sent {
            o.fail(
                "C01/counters",
                format!(
                    "initiator sent {} recv {}, responder sent {} recv {}; {}",
                    t.init_out.num_sent, t.init_out.num_recv, t.resp_out.num_sent, t.resp_out.num_recv, ctxs()
                ),
            );
            break;
        }
        for (s, n) in [(&mut sa.store, "A"), (&mut sb.store, "B")] {
            if let Err(e) = self_consistent(s, ns) {
                o.fail("C01/consistency", format!("{n} after the session: {e}; {}", ctxs()));
            }
        }
        for (id, before) in other_ids.iter().zip(others_before.iter()) {
            if (dump(&mut sa.store, *id)?, dump(&mut sb.store, *id)?) != *before {
                o.fail("C01/other-document-changed", format!("a session of document {} changed document {}; {}", ns, id, ctxs()));
            }
        }
        if o.failed() {
            break;
        }
        // an immediately following session transfers nothing
        let t2 = if initiator_is_a {
            run_session(&ctx.rt, &mut sa.store, &mut sb.store, ns, bound + 1)?
        } else {
            run_session(&ctx.rt, &mut sb.store, &mut sa.store, ns, bound + 1)?
        };
        let transferred: usize = t2
            .msgs
            .iter()
            .map(|m| {
                let mm: MMessage = postcard::from_bytes(m).expect("mirror");
                mm.parts.iter().filter(|p| matches!(p, MPart::RangeItem(_))).count()
            })
            .sum();
        if !t2.completed
            || t2.msgs.len() != 1
            || transferred != 0
            || t2.init_out.num_sent + t2.init_out.num_recv + t2.resp_out.num_sent + t2.resp_out.num_recv != 0
        {
            o.fail(
                "C01/second-session-not-silent",
                format!("second session: {} messages, {} item parts, counters {:?}/{:?}; {}", t2.msgs.len(), transferred, t2.init_out, t2.resp_out, ctxs()),
            );
            break;
        }
        if dump(&mut sa.store, ns)? != fa || dump(&mut sb.store, ns)? != fb {
            o.fail("C01/second-session-changed-state", ctxs());
            break;
        }
        // second phase: the two (now equal) replicas change again - more entries, removal + re-creation of the document,
        // reopen - and are reconciled once more: whatever the first sessions left behind must not influence this one
        if let Some(p2) = &c.phase2 {
            o.class("second-phase");
            let more_a: Vec<SignedEntry> = p2.a.iter().map(|e| sign(&nssec, &to_espec(e, &authors, &keys))).collect();
            let more_b: Vec<SignedEntry> = p2.b.iter().map(|e| sign(&nssec, &to_espec(e, &authors, &keys))).collect();
            for (side, recreate, more) in [(0, p2.recreate_a, &more_a), (1, p2.recreate_b, &more_b)] {
                let st = if side == 0 { &mut sa } else { &mut sb };
                let ro = if side == 0 { c.read_only.0 } else { c.read_only.1 };
                if recreate {
                    es(st.store.remove_replica(&ns))?;
                    es(st.store.import_namespace(if ro { iroh_docs::Capability::Read(ns) } else { nssec.clone().into() }))?;
                    o.class("second-phase/document-removed-and-re-created");
                }
                ctx.rt.block_on(async {
                    let mut r = es(st.store.open_replica(&ns))?;
                    for e in more.iter() {
                        let _ = r.insert_remote_entry(e.clone(), [9u8; 32], iroh_docs::ContentStatus::Missing).await;
                    }
                    Ok::<(), String>(())
                })?;
                st.store.close_replica(ns);
            }
            if p2.reopen {
                sa = sa.reopen()?;
                sb = sb.reopen()?;
            }
            let da2 = dump(&mut sa.store, ns)?;
            let db2 = dump(&mut sb.store, ns)?;
            let want2 = Model::merge(da2.iter().chain(db2.iter())).dump();
            let t3 = if initiator_is_a {
                run_session(&ctx.rt, &mut sa.store, &mut sb.store, ns, bound + 40)?
            } else {
                run_session(&ctx.rt, &mut sb.store, &mut sa.store, ns, bound + 40)?
            };
            o.count("sessions_run_to_completion", 1);
            let fa2 = dump(&mut sa.store, ns)?;
            let fb2 = dump(&mut sb.store, ns)?;
            if !t3.completed || fa2 != fb2 || fa2 != want2 {
                o.fail(
                    "C01/second-phase-diverged",
                    format!(
                        "after the first sessions A{} got {} and B{} got {}; before the new session A = {}, B = {}; after it (completed={}) A = {}, B = {}, the merge is {}; {label}, config {:?}",
                        if p2.recreate_a { " was removed and re-created and" } else { "" },
                        describe_all(&more_a),
                        if p2.recreate_b { " was removed and re-created and" } else { "" },
                        describe_all(&more_b),
                        describe_all(&da2),
                        describe_all(&db2),
                        t3.completed,
                        describe_all(&fa2),
                        describe_all(&fb2),
                        describe_all(&want2),
                        c.config
                    ),
                );
                break;
            }
            if t3.init_out.num_sent != t3.resp_out.num_recv || t3.init_out.num_recv != t3.resp_out.num_sent {
                o.fail("C01/counters", format!("second phase: initiator sent {} recv {}, responder sent {} recv {}", t3.init_out.num_sent, t3.init_out.num_recv, t3.resp_out.num_sent, t3.resp_out.num_recv));
                break;
            }
            for (s, n) in [(&mut sa.store, "A"), (&mut sb.store, "B")] {
                if let Err(e) = self_consistent(s, ns) {
                    o.fail("C01/consistency", format!("{n} after the second-phase session: {e}"));
                }
            }
            if o.failed() {
                break;
            }
        }
        sa.cleanup();
        sb.cleanup();
    }
    Ok(())
}
