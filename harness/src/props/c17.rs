//! C17 The useful-peer list is a bounded most-recently-used list.

use iroh_docs::NamespaceId;
use proptest::{collection::vec, prelude::*};
use serde::{Deserialize, Serialize};

use crate::{
    common::*,
    engine::{Ctx, Outcome, Prop, Tier},
};

pub struct C17;

#[derive(Serialize, Deserialize, Clone, Debug)]
pub enum Step {
    /// (document slot 0..=3 where the last slot is a document that does not exist, peer 0..9)
    Register(u8, u8),
    Read(u8),
    Reopen,
    /// remove the document (it then counts as unknown: registrations must fail, the list is gone)
    Remove(u8),
    /// import the document again (empty list)
    Recreate(u8),
    /// an operation on another part of the store
    Noise(Noise),
    /// a crowd: `n` registrations in a row for one document, peers `start .. start + n` (up to 600 distinct peers, so that
    /// any byte-sized or table-wide counter shows), compared once at the end of the burst
    Burst(u8, u16, u16),
}

#[derive(Serialize, Deserialize, Clone, Debug)]
pub struct Case {
    pub file: bool,
    pub docs: u8,
    pub steps: Vec<Step>,
    /// the crate clock (the one entries are stamped with, settable through the clock hook): 0 = the real clock, 1 = pinned to
    /// one value for the whole history, 2 = coarse (one microsecond tick per three steps). Recency is "order of registration",
    /// whatever the entry clock says
    #[serde(default)]
    pub clock: u8,
    /// peer lists written by an earlier run of the program an hour ago (file stores only): (document, peer) rows, oldest
    /// first, put into the peers table with plain redb before the store is opened for the history
    #[serde(default)]
    pub earlier: Vec<(u8, u8)>,
    /// at the end the lists are read once more through the client API of a real engine opened on the database (file stores)
    #[serde(default)]
    pub via_api: bool,
}

/// about one file-backed case in twelve also reads through the client API (derived from generated values, no extra draw)
fn steps_hash_is_rare(docs: &u8, clock: u8) -> bool {
    *docs == 3 && clock != 0
}

fn peer16(i: u16) -> [u8; 32] {
    let mut p = peer(i as u8);
    if i >= 256 {
        p[1] = (i >> 8) as u8;
    }
    p
}

fn peer(i: u8) -> [u8; 32] {
    let mut p = [0x11u8; 32];
    p[0] = i;
    p[31] = 255 - i;
    p
}

impl Prop for C17 {
    type Case = Case;
    const ID: &'static str = "C17";

    fn rule() -> String {
        "sequences of <= 60 (thorough 200) peer registrations over 1..=9 peers and 1..=3 documents plus a missing one, interleaved with \
         reads, reopen (file stores), removal and re-creation of documents (a removed document counts as unknown), compared after every step with a move-to-front list truncated to five; non-trivial = >= 7 \
         registrations over >= 6 distinct peers on one document with a re-registration of a peer that is not the oldest; distinct by \
         serialised case"
            .into()
    }

    fn cases(tier: Tier) -> u64 {
        tier.pick(200_000, 4_000_000)
    }

    fn strategy(tier: Tier) -> BoxedStrategy<Case> {
        let max = tier.pick(60, 200);
        let step = prop_oneof![
            30 => (0u8..4, 0u8..9).prop_map(|(d, p)| Step::Register(d, p)),
            6 => (0u8..4).prop_map(Step::Read),
            3 => Just(Step::Reopen),
            1 => (0u8..3).prop_map(Step::Remove),
            1 => (0u8..3).prop_map(Step::Recreate),
            3 => crate::gen::noise().prop_map(Step::Noise),
        ];
        let burst = (0u8..3, prop_oneof![Just(0u16), 0u16..400], prop_oneof![Just(255u16), Just(256), Just(257), 6u16..600]).prop_map(|(d, s, n)| Step::Burst(d, s, n));
        let step = prop_oneof![400 => step, 1 => burst];
        (
            prop::bool::weighted(0.3),
            1u8..=3,
            vec(step, 1..=max),
            prop_oneof![6 => Just(0u8), 2 => Just(1u8), 2 => Just(2u8)],
            prop_oneof![2 => Just(vec![]), 1 => vec((0u8..3, 0u8..9), 1..=8)],
        )
            .prop_map(|(file, docs, steps, clock, earlier)| Case { file, docs, steps, clock, earlier: if file { earlier } else { vec![] }, via_api: file && steps_hash_is_rare(&docs, clock) })
            .boxed()
    }

    fn check(ctx: &mut Ctx, c: &Case) -> Outcome {
        let mut o = Outcome::default();
        o.class(if c.file { "file" } else { "memory" });
        let r: R<()> = (|| {
            let mut st = AnyStore::new(ctx, c.file)?;
            let docs: Vec<NamespaceId> = (0..c.docs).map(|i| namespace(i).id()).collect();
            for i in 0..c.docs {
                es(st.store.import_namespace(namespace(i).clone().into()))?;
            }
            let missing = namespace(5).id();
            let mut model: Vec<Vec<[u8; 32]>> = vec![vec![]; c.docs as usize];
            if c.file && !c.earlier.is_empty() {
                // rows of an earlier run: stamped in nanoseconds of the wall clock, one hour ago, in this order
                es(st.store.flush())?;
                let path = st.path.clone().ok_or("file store without a path")?;
                drop(st);
                {
                    const PEERS: redb::MultimapTableDefinition<&[u8; 32], (u64, &[u8; 32])> = redb::MultimapTableDefinition::new("sync-peers-1");
                    let now_ns = std::time::SystemTime::UNIX_EPOCH.elapsed().map(|d| d.as_nanos() as u64).map_err(|e| e.to_string())?;
                    let base = now_ns - 3_600_000_000_000;
                    let db = es(redb::Database::create(&path))?;
                    let tx = es(db.begin_write())?;
                    {
                        let mut t = es(tx.open_multimap_table(PEERS))?;
                        for (i, (d, p)) in c.earlier.iter().enumerate() {
                            let d = *d as usize % docs.len();
                            // the earlier run kept the invariants of the list: a peer at most once, at most five per document
                            if model[d].contains(&peer(*p)) || model[d].len() >= 5 {
                                continue;
                            }
                            es(t.insert(docs[d].as_bytes(), (base + i as u64 * 1_000, &peer(*p))))?;
                            model[d].insert(0, peer(*p));
                        }
                    }
                    es(tx.commit())?;
                }
                st = AnyStore { store: es(iroh_docs::store::Store::persistent(&path))?, path: Some(path) };
                o.class("peer-lists-written-by-an-earlier-run");
            }
            match c.clock {
                1 => {
                    iroh_docs::verif::set_clock(Some(T0 + 3));
                    o.class("entry-clock-pinned");
                }
                2 => o.class("entry-clock-coarse"),
                _ => {}
            }
            let mut exists = vec![true; c.docs as usize];
            let mut noise_state = NoiseState::default();
            let mut regs: Vec<(usize, std::collections::BTreeSet<u8>, bool)> = vec![(0, Default::default(), false); c.docs as usize];
            for (i, s) in c.steps.iter().enumerate() {
                if c.clock == 2 {
                    iroh_docs::verif::set_clock(Some(T0 + (i as u64) / 3));
                }
                match s {
                    Step::Register(d, p) => {
                        let d = *d as usize;
                        if d >= docs.len() {
                            let res = st.store.register_useful_peer(missing, peer(*p));
                            if res.is_ok() {
                                o.fail("C17/register-on-missing-doc", format!("step {i}: registering a peer for a document that does not exist succeeded"));
                                break;
                            }
                            if es(st.store.get_sync_peers(&missing))?.is_some() {
                                o.fail("C17/register-on-missing-doc", format!("step {i}: the missing document now has peers"));
                                break;
                            }
                            o.class("register-on-missing");
                        } else if !exists[d] {
                            if st.store.register_useful_peer(docs[d], peer(*p)).is_ok() {
                                o.fail("C17/register-on-missing-doc", format!("step {i}: registering a peer for a removed document succeeded"));
                                break;
                            }
                            o.class("register-on-removed");
                        } else {
                            es(st.store.register_useful_peer(docs[d], peer(*p)))?;
                            let m = &mut model[d];
                            let pos = m.iter().position(|x| *x == peer(*p));
                            if let Some(pos) = pos {
                                if pos + 1 != m.len() {
                                    regs[d].2 = true; // re-registration of a non-oldest peer
                                }
                                m.remove(pos);
                            }
                            m.insert(0, peer(*p));
                            m.truncate(5);
                            regs[d].0 += 1;
                            regs[d].1.insert(*p);
                        }
                    }
                    Step::Read(_) => {}
                    Step::Burst(d, start, n) => {
                        let d = *d as usize % docs.len();
                        if exists[d] {
                            for j in 0..*n {
                                let pr = peer16(start.wrapping_add(j) % 700);
                                es(st.store.register_useful_peer(docs[d], pr))?;
                                let m = &mut model[d];
                                if let Some(pos) = m.iter().position(|x| *x == pr) {
                                    m.remove(pos);
                                }
                                m.insert(0, pr);
                                m.truncate(5);
                            }
                            o.class("burst-of-registrations(up-to-600-distinct-peers)");
                            o.nontrivial = true;
                        }
                    }
                    Step::Noise(nz) => {
                        if let Err(e) = apply_noise(&ctx.rt, &mut st.store, nz, &mut noise_state) {
                            o.fail("C17/noise", format!("step {i} {:?}: {e}", nz));
                            break;
                        }
                        o.class("noise-on-other-parts-of-the-store");
                    }
                    Step::Remove(d) => {
                        let d = *d as usize % docs.len();
                        es(st.store.remove_replica(&docs[d]))?;
                        exists[d] = false;
                        model[d].clear();
                        o.class("removed");
                    }
                    Step::Recreate(d) => {
                        let d = *d as usize % docs.len();
                        if !exists[d] {
                            es(st.store.import_namespace(namespace(d as u8).clone().into()))?;
                            exists[d] = true;
                            o.class("recreated");
                        }
                    }
                    Step::Reopen => {
                        st = st.reopen()?;
                        o.class("reopen");
                    }
                }
                // compare all documents after every step
                for (d, ns) in docs.iter().enumerate() {
                    let got: Option<Vec<[u8; 32]>> = es(st.store.get_sync_peers(ns))?.map(|it| it.collect());
                    let want = if model[d].is_empty() { None } else { Some(model[d].clone()) };
                    if got != want {
                        o.fail(
                            "C17/mru-list",
                            format!(
                                "step {i} {:?}: document {d} lists peers {:?}, the MRU model says {:?}",
                                s,
                                got.as_ref().map(|v| v.iter().map(|p| p[0]).collect::<Vec<_>>()),
                                want.as_ref().map(|v| v.iter().map(|p| p[0]).collect::<Vec<_>>())
                            ),
                        );
                        break;
                    }
                }
                if o.failed() {
                    break;
                }
            }
            if regs.iter().any(|(n, set, re)| *n >= 7 && set.len() >= 6 && *re) {
                o.nontrivial = true;
                o.class("eviction+refresh");
            }
            if c.via_api && c.file && !o.failed() {
                o.class("lists-read-through-the-client-api-of-a-real-engine");
                es(st.store.flush())?;
                let path = st.path.clone().ok_or("file store without a path")?;
                drop(st);
                let dir = ctx.fresh_path("c17api-dir");
                es(std::fs::create_dir_all(&dir))?;
                es(std::fs::rename(&path, dir.join("docs.redb")))?;
                let (endpoint, gossip, blobs) = crate::props::c07::api_fixture(ctx)?;
                let res: R<()> = ctx.rt.block_on(async {
                    use crate::props::c07::within;
                    let engine = within("spawning the engine", iroh_docs::protocol::Docs::persistent(dir.clone()).spawn(endpoint, blobs, gossip)).await?.map_err(|e| format!("spawn: {e:?}"))?;
                    for (d, ns) in docs.iter().enumerate() {
                        if !exists[d] {
                            continue;
                        }
                        let doc = es(within("open", engine.open(*ns)).await?)?.ok_or("document not there behind the engine")?;
                        let got = es(within("get_sync_peers", doc.get_sync_peers()).await?)?;
                        let want = if model[d].is_empty() { None } else { Some(model[d].clone()) };
                        if got != want {
                            o.fail("C17/mru-list", format!("through the client API: document {d} lists peers {:?}, the MRU model says {:?}", got.as_ref().map(|v| v.iter().map(|p| p[0]).collect::<Vec<_>>()), want.as_ref().map(|v| v.iter().map(|p| p[0]).collect::<Vec<_>>())));
                        }
                    }
                    within("shutdown", iroh::protocol::ProtocolHandler::shutdown(&engine)).await?;
                    Ok(())
                });
                let _ = std::fs::remove_dir_all(&dir);
                return res;
            }
            st.cleanup();
            Ok(())
        })();
        iroh_docs::verif::set_clock(None);
        if let Err(e) = r {
            o.fail("C17/harness-error", e);
        }
        o
    }

    fn assumptions() -> Vec<String> {
        vec!["two consecutive registrations get distinct wall-clock nanosecond stamps (the store orders peers by SystemTime nanos)".into()]
    }
}
