//! C02 Replica state is an order-independent function of the entries offered.

use iroh_docs::{sync::InsertError, verif, ContentStatus, SignedEntry};
use proptest::{collection::vec, prelude::*};
use serde::{Deserialize, Serialize};

use crate::{
    common::*,
    engine::{idx, Ctx, Outcome, Prop, Tier},
    gen::{egen, pools, to_espec, EGen, Pools},
};

pub struct C02;

#[derive(Serialize, Deserialize, Clone, Debug)]
pub enum Step {
    /// local insert at clock T0+now
    Insert { a: u16, k: u16, c: u8, now: u8 },
    /// local prefix deletion at clock T0+now
    Delete { a: u16, k: u16, now: u8 },
    /// pre-signed entry through the remote-insert path
    Remote(EGen),
    /// offer the i-th earlier offered entry again
    Reoffer(u16),
    /// drop and reopen the store (file stores)
    Reopen,
    /// an operation on another part of the store (another document, settings, authors, flush, committing reads,
    /// requests that fail inside the store): must not change anything this document shows
    Noise(Noise),
    /// remove the document and create it again: it must then behave like a fresh one (nothing of the old contents, no
    /// derived state left behind)
    RemoveAndRecreate,
    /// a crowd: `CROWD_SIZES[class]` entries of one author under one key (`key || 'z' || i`, big-endian 16-bit `i`), offered
    /// one after the other through the remote-insert path - so that a later insert or deletion at the key (or a prefix of
    /// it) prunes hundreds or thousands of entries at once and must report exactly that count
    Crowd { a: u16, k: u16, class: u8, t: u8 },
}

/// around the sizes at which a byte-sized counter, a two-byte length prefix or a chunked removal would show
pub const CROWD_SIZES: [usize; 8] = [255, 256, 257, 1023, 1024, 1025, 2047, 2049];

#[derive(Serialize, Deserialize, Clone, Debug)]
pub struct History {
    pub file: bool,
    pub pools: Pools,
    pub steps: Vec<Step>,
    /// between the steps only point lookups (which read inside the open write transaction) are compared; the full
    /// scans, which commit the transaction, run after a reopen and at the end - so consecutive offers share a transaction
    #[serde(default)]
    pub sparse_observe: bool,
    /// the local steps of the history (insert / prefix delete; everything else is skipped) go through the client API of a
    /// real engine: `Doc::set_hash`, `Doc::del` (which reports the number of entries it removed), `Doc::get_many`
    #[serde(default)]
    pub via_api: bool,
}

#[derive(Serialize, Deserialize, Clone, Debug)]
pub struct PermCase {
    pub pools: Pools,
    pub entries: Vec<EGen>,
    /// per order: sort keys (one per entry) and duplicates (position, which)
    pub orders: Vec<(Vec<u16>, Vec<(u16, u16)>)>,
}

#[derive(Serialize, Deserialize, Clone, Debug)]
pub enum Case {
    History(History),
    Perm(PermCase),
}

fn step() -> impl Strategy<Value = Step> {
    prop_oneof![
        3 => (any::<u16>(), any::<u16>(), 1u8..4, 0u8..8).prop_map(|(a, k, c, now)| Step::Insert { a, k, c, now }),
        2 => (any::<u16>(), any::<u16>(), 0u8..8).prop_map(|(a, k, now)| Step::Delete { a, k, now }),
        5 => egen().prop_map(Step::Remote),
        1 => any::<u16>().prop_map(Step::Reoffer),
        1 => Just(Step::Reopen),
        2 => crate::gen::noise().prop_map(Step::Noise),
        1 => Just(Step::RemoveAndRecreate),
    ]
}

impl Prop for C02 {
    type Case = Case;
    const ID: &'static str = "C02";

    fn rule() -> String {
        "histories of local insert / prefix delete (clock hook) / remote insert / re-offer / reopen checked step by step against the \
         reference model, plus entry sets applied in 4 permutations-with-duplicates; non-trivial = some offer was superseded by an \
         earlier same-author entry at its key or a proper prefix, or a pruning insert at a key ending in 0xFF with a sibling at or \
         after the prefix successor; distinct by serialised case"
            .into()
    }

    fn cases(tier: Tier) -> u64 {
        tier.pick(50_000, 800_000)
    }

    fn strategy(tier: Tier) -> BoxedStrategy<Case> {
        let max_steps = tier.pick(20, 60);
        let hist = (prop::bool::weighted(0.25), pools(8), vec(step(), 1..=max_steps), prop::bool::weighted(0.4))
            .prop_map(|(file, pools, steps, sparse_observe)| Case::History(History { file, pools, steps, sparse_observe, via_api: false }));
        let perm = (pools(6), vec(egen(), 1..=8))
            .prop_flat_map(|(pools, entries)| {
                let n = entries.len();
                let order = (vec(any::<u16>(), n), vec((any::<u16>(), any::<u16>()), 0..=4));
                (Just(pools), Just(entries), vec(order, 4))
            })
            .prop_map(|(pools, entries, orders)| Case::Perm(PermCase { pools, entries, orders }));
        // rare: a history with one crowd step somewhere, followed by at least a few more steps (which may prune the crowd)
        let crowd = (pools(8), vec(step(), 3..=12), any::<u16>(), (any::<u16>(), any::<u16>(), 0u8..8, 0u8..8), prop::bool::weighted(0.5), prop::bool::weighted(0.2))
            .prop_map(|(pools, mut steps, pos, (a, k, class, t), sparse_observe, file)| {
                let at = idx(pos, steps.len());
                steps.insert(at, Step::Crowd { a, k, class, t });
                // make sure something is offered at the crowd's own key afterwards (an insert or a deletion, any timestamp)
                steps.push(Step::Delete { a, k, now: 7 - (t % 4) });
                Case::History(History { file, pools, steps, sparse_observe, via_api: false })
            });
        let local_step = prop_oneof![
            3 => (any::<u16>(), any::<u16>(), 1u8..4, 0u8..8).prop_map(|(a, k, c, now)| Step::Insert { a, k, c, now }),
            2 => (any::<u16>(), any::<u16>(), 0u8..8).prop_map(|(a, k, now)| Step::Delete { a, k, now }),
        ];
        let api = (pools(8), vec(local_step, 1..=16)).prop_map(|(pools, steps)| Case::History(History { file: false, pools, steps, sparse_observe: false, via_api: true }));
        prop_oneof![200 => hist, 100 => perm, 1 => crowd, 2 => api].boxed()
    }

    fn check(ctx: &mut Ctx, case: &Case) -> Outcome {
        match case {
            Case::History(h) => check_history(ctx, h),
            Case::Perm(p) => check_perm(ctx, p),
        }
    }

    fn assumptions() -> Vec<String> {
        vec![
            "ed25519 signing is deterministic, so the entry a local insert creates can be predicted byte for byte".into(),
            "reference model = DESIGN.md §2.3 (ties at a proper prefix keep the parent)".into(),
        ]
    }
}

fn ff_edge(model: &Model, e: &SignedEntry) -> bool {
    // insert at a key ending in 0xFF while a same-author key that is NOT prefixed by it sorts between
    // the key and its same-length successor (e.g. key 61ff, sibling 62 < 6200): what an
    // increment-with-carry prefix bound gets wrong
    let k = e.key();
    if k.last() != Some(&0xFF) {
        return false;
    }
    let succ = lexical_successor(k);
    let a = e.author().to_bytes();
    model
        .m
        .keys()
        .any(|(ca, ck)| *ca == a && !ck.starts_with(k) && ck.as_slice() > k && ck.as_slice() < succ.as_slice())
}

/// The local write paths through the client API of a real engine, against the same model.
fn check_history_api(ctx: &mut Ctx, h: &History) -> Outcome {
    use crate::props::c07::{api_fixture, within};
    use futures_util::StreamExt;
    let mut o = Outcome::default();
    o.class("history/through-the-client-api-of-a-real-engine");
    let r: R<()> = (|| {
        let keys = h.pools.keys();
        let authors = h.pools.authors();
        let nssec = namespace(h.pools.ns).clone();
        let (endpoint, gossip, blobs) = api_fixture(ctx)?;
        ctx.rt.block_on(async {
            let docs = within("spawning the engine", iroh_docs::protocol::Docs::memory().spawn(endpoint, blobs, gossip)).await?.map_err(|e| format!("spawn: {e:?}"))?;
            for a in &authors {
                es(within("author_import", docs.author_import(author(*a).clone())).await?)?;
            }
            let doc = es(within("import", docs.import_namespace(nssec.clone().into())).await?)?;
            let mut model = Model::default();
            for (i, s) in h.steps.iter().enumerate() {
                let (entry, delete) = match s {
                    Step::Insert { a, k, c, now } => (sign(&nssec, &ESpec { a: authors[idx(*a, authors.len())], k: keys[idx(*k, keys.len())].clone(), t: T0 + *now as u64, c: *c }), false),
                    Step::Delete { a, k, now } => (sign(&nssec, &ESpec { a: authors[idx(*a, authors.len())], k: keys[idx(*k, keys.len())].clone(), t: T0 + *now as u64, c: 0 }), true),
                    _ => continue,
                };
                let before = model.clone();
                let expect = model.apply(&entry);
                if expect.is_none() {
                    o.class("superseded-offer");
                    o.nontrivial = true;
                }
                verif::set_clock(Some(entry.timestamp()));
                let got: Option<usize> = if delete {
                    within("del", doc.del(entry.author(), entry.key().to_vec())).await?.ok()
                } else {
                    // set_hash does not report a count: Some(_) stands for "accepted"
                    within("set_hash", doc.set_hash(entry.author(), entry.key().to_vec(), entry.content_hash(), entry.content_len())).await?.ok().map(|_| expect.unwrap_or(0))
                };
                verif::set_clock(Some(T0 + 3));
                if got != expect {
                    o.fail(
                        "C02/step-result",
                        format!("through the client API, step {i} offering {} to state {}: the call returned {:?} (Some(n) = accepted, n removed; None = refused), model {:?}", describe(&entry), describe_all(&before.dump()), got, expect),
                    );
                    break;
                }
                o.count("steps_compared_with_model", 1);
            }
            if !o.failed() {
                let stream = es(within("get_many", doc.get_many(iroh_docs::store::Query::all().include_empty())).await?)?;
                tokio::pin!(stream);
                let mut got = vec![];
                while let Some(x) = within("reply item", stream.next()).await? {
                    got.push(es(x)?);
                }
                let want: Vec<iroh_docs::Entry> = model.dump().iter().map(|e| e.entry().clone()).collect();
                if got != want {
                    o.fail("C02/state", format!("through the client API: the document holds {} entries {:?}, the model {}", got.len(), got.iter().map(|e| (hex::encode(e.key()), e.timestamp())).collect::<Vec<_>>(), describe_all(&model.dump())));
                }
            }
            drop(doc);
            within("shutdown", iroh::protocol::ProtocolHandler::shutdown(&docs)).await?;
            Ok::<(), String>(())
        })
    })();
    verif::set_clock(None);
    if let Err(e) = r {
        o.fail(if e.starts_with("harness-timeout") { "C02/harness-timeout" } else { "C02/harness-error" }, e);
    }
    o
}

fn check_history(ctx: &mut Ctx, h: &History) -> Outcome {
    if h.via_api {
        return check_history_api(ctx, h);
    }
    let mut o = Outcome::default();
    o.class(if h.file { "history/file" } else { "history/memory" });
    if h.sparse_observe {
        o.class("history/offers-share-a-transaction(point-lookups-only-between-steps)");
    }
    let r: R<()> = (|| {
        let keys = h.pools.keys();
        let authors = h.pools.authors();
        let nssec = namespace(h.pools.ns).clone();
        let ns = nssec.id();
        let mut st = AnyStore::new(ctx, h.file)?;
        es(st.store.new_replica(nssec.clone()))?;
        st.store.close_replica(ns);
        let mut model = Model::default();
        let mut offered: Vec<SignedEntry> = vec![];
        let mut noise_state = NoiseState::default();
        verif::set_clock(Some(T0 + 3));
        for (i, s) in h.steps.iter().enumerate() {
            // what is offered, and through which path
            enum Path {
                Local,
                LocalDelete,
                Remote,
            }
            let (entry, path) = match s {
                Step::Crowd { a, k, class, t } => {
                    let n = CROWD_SIZES[*class as usize % CROWD_SIZES.len()];
                    o.class("history/crowd(255..2049-entries-under-one-key)");
                    let base = keys[idx(*k, keys.len())].clone();
                    let a = authors[idx(*a, authors.len())];
                    let mut r = es(st.store.open_replica(&ns))?;
                    for j in 0..n {
                        let mut key = base.clone();
                        key.extend_from_slice(&[b'z', (j >> 8) as u8, j as u8]);
                        let e = sign(&nssec, &ESpec { a, k: key, t: T0 + *t as u64, c: 1 });
                        let expect = model.apply(&e);
                        let got = match ctx.rt.block_on(r.insert_remote_entry(e.clone(), [7u8; 32], ContentStatus::Missing)) {
                            Ok(n) => Some(n),
                            Err(InsertError::NewerEntryExists) => None,
                            Err(e) => return Err(format!("crowd insert: {e:?}")),
                        };
                        if got != expect {
                            o.fail("C02/step-result", format!("step {i}, entry {j} of a crowd of {n}: offering {}: code returned {:?}, model {:?}", describe(&e), got, expect));
                            break;
                        }
                    }
                    drop(r);
                    st.store.close_replica(ns);
                    if o.failed() {
                        break;
                    }
                    continue;
                }
                Step::Insert { a, k, c, now } => {
                    let spec = ESpec { a: authors[idx(*a, authors.len())], k: keys[idx(*k, keys.len())].clone(), t: T0 + *now as u64, c: *c };
                    (sign(&nssec, &spec), Path::Local)
                }
                Step::Delete { a, k, now } => {
                    let spec = ESpec { a: authors[idx(*a, authors.len())], k: keys[idx(*k, keys.len())].clone(), t: T0 + *now as u64, c: 0 };
                    (sign(&nssec, &spec), Path::LocalDelete)
                }
                Step::Remote(e) => (sign(&nssec, &to_espec(e, &authors, &keys)), Path::Remote),
                Step::Reoffer(j) => {
                    if offered.is_empty() {
                        continue;
                    }
                    (offered[idx(*j, offered.len())].clone(), Path::Remote)
                }
                Step::Noise(nz) => {
                    if ns == noise_namespace().id() {
                        continue;
                    }
                    if let Err(e) = apply_noise(&ctx.rt, &mut st.store, nz, &mut noise_state) {
                        o.fail("C02/noise", format!("step {i} {:?}: {e}", nz));
                        break;
                    }
                    o.class("history/noise-on-other-parts-of-the-store");
                    if !h.sparse_observe {
                        let d = dump(&mut st.store, ns)?;
                        if d != model.dump() {
                            o.fail("C02/noise-changed-the-document", format!("step {i} {:?}: store {} model {}", nz, describe_all(&d), describe_all(&model.dump())));
                            break;
                        }
                    }
                    continue;
                }
                Step::RemoveAndRecreate => {
                    es(st.store.remove_replica(&ns))?;
                    es(st.store.import_namespace(nssec.clone().into()))?;
                    model = Model::default();
                    o.class("history/document-removed-and-re-created");
                    if !h.sparse_observe {
                        let d = dump(&mut st.store, ns)?;
                        if !d.is_empty() {
                            o.fail("C02/recreated-not-empty", format!("step {i}: the re-created document holds {}", describe_all(&d)));
                            break;
                        }
                        if let Err(e) = self_consistent(&mut st.store, ns) {
                            o.fail("C02/consistency", format!("step {i} after removal and re-creation: {e}"));
                            break;
                        }
                    }
                    continue;
                }
                Step::Reopen => {
                    st = st.reopen()?;
                    o.class("history/reopen");
                    let d = dump(&mut st.store, ns)?;
                    if d != model.dump() {
                        o.fail("C02/reopen-state", format!("step {i}: after reopen store {} model {}", describe_all(&d), describe_all(&model.dump())));
                        break;
                    }
                    continue;
                }
            };
            if ff_edge(&model, &entry) {
                o.class("ff-edge");
                o.nontrivial = true;
            }
            o.count("steps_compared_with_model", 1);
            let before = model.clone();
            let expect = model.apply(&entry);
            if expect.is_none() {
                o.class("superseded-offer");
                o.nontrivial = true;
            } else if expect.unwrap() > 0 {
                o.class("pruning-insert");
                if expect.unwrap() >= 255 {
                    o.class("pruning-insert/removes>=255-entries-at-once");
                    o.nontrivial = true;
                }
            }
            if offered.contains(&entry) {
                o.class("duplicate-offer");
            }
            offered.push(entry.clone());
            let author = author(author_index(&entry.author()).unwrap()).clone();
            let got = ctx.rt.block_on(async {
                let mut r = es(st.store.open_replica(&ns))?;
                let res = match path {
                    Path::Local => {
                        verif::set_clock(Some(entry.timestamp()));
                        r.insert(entry.key(), &author, entry.content_hash(), entry.content_len()).await
                    }
                    Path::LocalDelete => {
                        verif::set_clock(Some(entry.timestamp()));
                        r.delete_prefix(entry.key(), &author).await
                    }
                    Path::Remote => r.insert_remote_entry(entry.clone(), [7u8; 32], ContentStatus::Missing).await,
                };
                verif::set_clock(Some(T0 + 3));
                Ok::<_, String>(res)
            })?;
            st.store.close_replica(ns);
            let got = match got {
                Ok(n) => Some(n),
                Err(InsertError::NewerEntryExists) => None,
                Err(e) => {
                    o.fail("C02/unexpected-error", format!("step {i} {:?}: {e:?}", s));
                    break;
                }
            };
            if got != expect {
                o.fail(
                    "C02/step-result",
                    format!(
                        "step {i} offering {} to state {}: code returned {:?} (Some(n)=inserted, n removed; None=rejected), model {:?}",
                        describe(&entry),
                        describe_all(&before.dump()),
                        got,
                        expect
                    ),
                );
                break;
            }
            if h.sparse_observe && i + 1 != h.steps.len() {
                // point lookups of every key the model holds or held for this author (no scan, no commit)
                let a = entry.author();
                let mut keys_: Vec<Vec<u8>> = before.m.keys().chain(model.m.keys()).filter(|(ca, _)| *ca == a.to_bytes()).map(|(_, k)| k.clone()).collect();
                keys_.sort();
                keys_.dedup();
                for k in keys_ {
                    let got = es(st.store.get_exact(ns, a, &k, true))?;
                    let want = model.m.get(&(a.to_bytes(), k.clone())).cloned();
                    if got != want {
                        o.fail(
                            "C02/state",
                            format!("step {i} offering {} to state {}: get_exact({}) = {:?}, model {:?}", describe(&entry), describe_all(&before.dump()), hex::encode(&k), got.as_ref().map(describe), want.as_ref().map(describe)),
                        );
                        break;
                    }
                }
                if o.failed() {
                    break;
                }
                continue;
            }
            let d = dump(&mut st.store, ns)?;
            if d != model.dump() {
                o.fail(
                    "C02/state",
                    format!(
                        "step {i} offering {} to state {}: store now {} but model {}",
                        describe(&entry),
                        describe_all(&before.dump()),
                        describe_all(&d),
                        describe_all(&model.dump())
                    ),
                );
                break;
            }
            if let Err(e) = self_consistent(&mut st.store, ns) {
                o.fail("C02/consistency", format!("step {i} offering {}: {e}", describe(&entry)));
                break;
            }
        }
        verif::set_clock(None);
        st.cleanup();
        Ok(())
    })();
    if let Err(e) = r {
        o.fail("C02/harness-error", e);
    }
    o
}

fn check_perm(ctx: &mut Ctx, p: &PermCase) -> Outcome {
    let mut o = Outcome::default();
    o.class("perm");
    let r: R<()> = (|| {
        let keys = p.pools.keys();
        let authors = p.pools.authors();
        let nssec = namespace(p.pools.ns).clone();
        let ns = nssec.id();
        let entries: Vec<SignedEntry> = p.entries.iter().map(|e| sign(&nssec, &to_espec(e, &authors, &keys))).collect();
        let want = Model::merge(entries.iter());
        // model self-test: folding apply in the given order must equal merge
        verif::set_clock(Some(T0 + 3));
        let mut dumps = vec![];
        for (sort_keys, dups) in &p.orders {
            let mut order: Vec<usize> = (0..entries.len()).collect();
            order.sort_by_key(|i| (sort_keys.get(*i).copied().unwrap_or(0), *i));
            for (pos, which) in dups {
                let at = idx(*pos, order.len() + 1);
                order.insert(at, idx(*which, entries.len()));
            }
            let mut fold = Model::default();
            let mut st = Store::memory();
            es(st.new_replica(nssec.clone()))?;
            let mut superseded = false;
            for i in &order {
                let e = &entries[*i];
                let exp = fold.apply(e);
                if exp.is_none() {
                    superseded = true;
                }
                let got = ctx.rt.block_on(async {
                    let mut r = es(st.open_replica(&ns))?;
                    Ok::<_, String>(r.insert_remote_entry(e.clone(), [7u8; 32], ContentStatus::Missing).await)
                })?;
                let got = match got {
                    Ok(n) => Some(n),
                    Err(InsertError::NewerEntryExists) => None,
                    Err(e) => {
                        o.fail("C02/unexpected-error", format!("{e:?}"));
                        return Ok(());
                    }
                };
                if got != exp {
                    o.fail(
                        "C02/step-result",
                        format!("perm order {:?}: offering {} returned {:?}, model {:?}", order, describe(e), got, exp),
                    );
                    return Ok(());
                }
            }
            if superseded {
                o.nontrivial = true;
                o.class("superseded-offer");
            }
            if fold != want {
                o.fail(
                    "MODEL-SELF-TEST",
                    format!("fold(apply) {} != merge {} for order {:?}", describe_all(&fold.dump()), describe_all(&want.dump()), order),
                );
                return Ok(());
            }
            st.close_replica(ns);
            dumps.push((order, dump(&mut st, ns)?));
        }
        verif::set_clock(None);
        for (order, d) in &dumps {
            if *d != want.dump() {
                o.fail(
                    "C02/perm-state",
                    format!("order {:?} of {} ends in {} but merge is {}", order, describe_all(&entries), describe_all(d), describe_all(&want.dump())),
                );
                break;
            }
        }
        Ok(())
    })();
    if let Err(e) = r {
        o.fail("C02/harness-error", e);
    }
    o
}

use iroh_docs::store::Store;
