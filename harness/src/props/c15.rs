//! C15 Download policies persist and decide downloads exactly as specified.

use iroh_docs::{
    actor::OpenOpts,
    store::{DownloadPolicy, FilterKind, Store},
    verif, ContentStatus, Entry, Event, Record, RecordIdentifier,
};
use proptest::{collection::vec, prelude::*};
use serde::{Deserialize, Serialize};

use crate::{
    act,
    common::*,
    engine::{idx, Ctx, Outcome, Prop, Tier},
};

pub struct C15;

#[derive(Serialize, Deserialize, Clone, Debug)]
pub struct FSpec {
    pub exact: bool,
    #[serde(with = "hexbytes")]
    pub bytes: Vec<u8>,
}

#[derive(Serialize, Deserialize, Clone, Debug)]
pub struct PSpec {
    pub nothing_except: bool,
    pub filters: Vec<FSpec>,
}

#[derive(Serialize, Deserialize, Clone, Debug)]
pub enum KeyRel {
    /// equal to filter i
    Equal(u16),
    /// filter i plus a suffix
    Extend(u16, #[serde(with = "hexbytes")] Vec<u8>),
    /// filter i minus its last n bytes
    Shorten(u16, u8),
    Other(#[serde(with = "hexbytes")] Vec<u8>),
}

#[derive(Serialize, Deserialize, Clone, Debug)]
pub struct Pure {
    pub policy: PSpec,
    pub keys: Vec<KeyRel>,
    pub strings: Vec<String>,
}

#[derive(Serialize, Deserialize, Clone, Debug)]
pub struct StoreCase {
    pub file: bool,
    pub policies: Vec<(u8, PSpec)>,
    pub keys: Vec<KeyRel>,
    /// policy changes made through the actor while the document stays open and entries keep arriving: (before entry, policy)
    #[serde(default)]
    pub live_changes: Vec<(u16, PSpec)>,
    /// after the i-th policy was set (and read back) a capability for document `slot` is imported again - the same one, the
    /// read capability on top of the write capability, ... - and the policies are read once more: an import is not a policy change
    #[serde(default)]
    pub reimports: Vec<Option<(u8, bool)>>,
}

#[derive(Serialize, Deserialize, Clone, Debug)]
pub enum Case {
    Pure(Pure),
    Store(StoreCase),
    /// the policies of a `StoreCase` set and read through the client API of a real engine (restart instead of reopen)
    Api(StoreCase),
}

fn filter_bytes() -> impl Strategy<Value = Vec<u8>> {
    prop_oneof![
        1 => Just(vec![]),
        4 => vec(prop::sample::select(vec![b'a', b'b', b':', 0x00, 0xFF, 0xC3, 0x28]), 0..=4),
        2 => "[a-c:]{0,5}".prop_map(|s| s.into_bytes()),
        1 => vec(any::<u8>(), 0..12),
    ]
}

fn fspec() -> impl Strategy<Value = FSpec> {
    (any::<bool>(), filter_bytes()).prop_map(|(exact, bytes)| FSpec { exact, bytes })
}

fn pspec() -> impl Strategy<Value = PSpec> {
    // rare: long filter lists (around the one-byte length prefix of the storage encoding, and a few hundred)
    let n = prop_oneof![400 => 0usize..=5, 1 => 126usize..=130, 1 => 250usize..=300];
    (any::<bool>(), n.prop_flat_map(|n| vec(fspec(), n))).prop_map(|(nothing_except, filters)| PSpec { nothing_except, filters })
}

fn keyrel() -> impl Strategy<Value = KeyRel> {
    prop_oneof![
        3 => any::<u16>().prop_map(KeyRel::Equal),
        3 => (any::<u16>(), filter_bytes()).prop_map(|(i, s)| KeyRel::Extend(i, s)),
        2 => (any::<u16>(), 1u8..3).prop_map(|(i, n)| KeyRel::Shorten(i, n)),
        2 => filter_bytes().prop_map(KeyRel::Other),
    ]
}

fn filter_string() -> impl Strategy<Value = String> {
    prop_oneof![
        4 => (prop::sample::select(vec!["exact", "prefix"]), "[ -~]{0,8}").prop_map(|(k, s)| format!("{k}:utf8:{s}")),
        4 => (prop::sample::select(vec!["exact", "prefix"]), vec(any::<u8>(), 0..8)).prop_map(|(k, b)| format!("{k}:hex:{}", hex::encode(b))),
        2 => (prop::sample::select(vec!["exact", "prefix", "Exact", "pre", ""]), prop::sample::select(vec!["utf8", "hex", "base64", ""]), "[ -~]{0,6}").prop_map(|(k, e, s)| format!("{k}:{e}:{s}")),
        1 => "[ -~]{0,12}",
        1 => "(exact|prefix):hex:[0-9a-fA-F]{0,7}",
    ]
}

pub fn to_filter(f: &FSpec) -> FilterKind {
    if f.exact {
        FilterKind::Exact(f.bytes.clone().into())
    } else {
        FilterKind::Prefix(f.bytes.clone().into())
    }
}

pub fn to_policy(p: &PSpec) -> DownloadPolicy {
    let f = p.filters.iter().map(to_filter).collect();
    if p.nothing_except {
        DownloadPolicy::NothingExcept(f)
    } else {
        DownloadPolicy::EverythingExcept(f)
    }
}

/// The definition in the property statement, written independently.
pub fn oracle(p: &PSpec, key: &[u8]) -> bool {
    let hit = |f: &FSpec| if f.exact { f.bytes == key } else { key.len() >= f.bytes.len() && key[..f.bytes.len()] == f.bytes[..] };
    let any = p.filters.iter().any(hit);
    if p.nothing_except {
        any
    } else {
        !any
    }
}

pub fn resolve_key(k: &KeyRel, p: &PSpec) -> Vec<u8> {
    let f = |i: &u16| -> Vec<u8> {
        if p.filters.is_empty() {
            vec![]
        } else {
            p.filters[idx(*i, p.filters.len())].bytes.clone()
        }
    };
    match k {
        KeyRel::Equal(i) => f(i),
        KeyRel::Extend(i, s) => [f(i), s.clone()].concat(),
        KeyRel::Shorten(i, n) => {
            let mut b = f(i);
            for _ in 0..*n {
                b.pop();
            }
            b
        }
        KeyRel::Other(b) => b.clone(),
    }
}

fn entry_for(key: &[u8]) -> Entry {
    Entry::new(
        RecordIdentifier::new(namespace(0).id(), author(0).id(), key),
        Record::new(iroh_blobs::Hash::new(b"x"), 1, T0),
    )
}

impl Prop for C15 {
    type Case = Case;
    const ID: &'static str = "C15";

    fn rule() -> String {
        "(pure) policies of both kinds with 0..=5 exact/prefix byte filters (empty, non-UTF-8, containing ':') against keys related \
         to the filters (equal, extension, strict prefix, unrelated): DownloadPolicy::matches vs. the definition; FilterKind Display -> \
         FromStr identity on values and FromStr -> Display -> FromStr idempotence on generated well- and ill-formed strings; (store) \
         set/get on existing and missing documents, reopen, default policy, and should_download of remote-insert events observed \
         through a subscriber; non-trivial = a policy with >= 2 filters of which one matches and one does not, or a non-UTF-8 filter; \
         distinct by serialised case"
            .into()
    }

    fn cases(tier: Tier) -> u64 {
        tier.pick(400_000, 15_000_000)
    }

    fn strategy(_tier: Tier) -> BoxedStrategy<Case> {
        let pure = (pspec(), vec(keyrel(), 1..=8), vec(filter_string(), 0..=4)).prop_map(|(policy, keys, strings)| Case::Pure(Pure { policy, keys, strings }));
        let store = (prop::bool::weighted(0.3), vec((0u8..3, pspec()), 1..=4), vec(keyrel(), 1..=6), vec((any::<u16>(), pspec()), 0..=2), vec(prop::option::weighted(0.4, (0u8..2, any::<bool>())), 4))
            .prop_map(|(file, policies, keys, live_changes, reimports)| Case::Store(StoreCase { file, policies, keys, live_changes, reimports }));
        let api = (prop::bool::weighted(0.4), vec((0u8..2, pspec()), 1..=4), vec(prop::option::weighted(0.4, (0u8..2, any::<bool>())), 4))
            .prop_map(|(file, policies, reimports)| Case::Api(StoreCase { file, policies, keys: vec![], live_changes: vec![], reimports }));
        prop_oneof![240 => pure, 20 => store, 1 => api].boxed()
    }

    fn check(ctx: &mut Ctx, case: &Case) -> Outcome {
        match case {
            Case::Pure(p) => check_pure(p),
            Case::Store(s) => check_store(ctx, s),
            Case::Api(s) => check_api(ctx, s),
        }
    }
}

fn note_nontrivial(o: &mut Outcome, p: &PSpec, key: &[u8]) {
    let hits = p.filters.iter().filter(|f| if f.exact { f.bytes == key } else { key.starts_with(&f.bytes) }).count();
    if p.filters.len() >= 2 && hits >= 1 && hits < p.filters.len() {
        o.nontrivial = true;
        o.class("mixed-hit-and-miss");
    }
    if p.filters.len() >= 126 {
        o.class("policy-with->=126-filters");
    }
    if p.filters.iter().any(|f| std::str::from_utf8(&f.bytes).is_err()) {
        o.nontrivial = true;
        o.class("non-utf8-filter");
    }
}

fn check_pure(p: &Pure) -> Outcome {
    let mut o = Outcome::default();
    o.class("pure");
    let policy = to_policy(&p.policy);
    for k in &p.keys {
        let key = resolve_key(k, &p.policy);
        note_nontrivial(&mut o, &p.policy, &key);
        let got = policy.matches(&entry_for(&key));
        let want = oracle(&p.policy, &key);
        if got != want {
            o.fail("C15/matches", format!("policy {:?} key {}: matches = {got}, definition says {want}", policy, hex::encode(&key)));
            return o;
        }
        for f in &p.policy.filters {
            let fk = to_filter(f);
            let w = if f.exact { f.bytes == key } else { key.starts_with(&f.bytes) };
            if fk.matches(&key) != w {
                o.fail("C15/filter-matches", format!("filter {:?} key {}", fk, hex::encode(&key)));
                return o;
            }
        }
    }
    // policy survives its storage encoding
    let enc = postcard::to_stdvec(&policy).unwrap();
    match postcard::from_bytes::<DownloadPolicy>(&enc) {
        Ok(back) if back == policy => {}
        other => {
            o.fail("C15/policy-encoding", format!("{:?} -> {:?}", policy, other));
            return o;
        }
    }
    // textual form: Display -> FromStr is the identity on values
    for f in &p.policy.filters {
        let fk = to_filter(f);
        let s = fk.to_string();
        match s.parse::<FilterKind>() {
            Ok(back) if back == fk => {}
            other => {
                o.fail("C15/filter-display-fromstr", format!("{:?} displays as {:?} which parses to {:?}", fk, s, other.map_err(|e| e.to_string())));
                return o;
            }
        }
    }
    // FromStr -> Display -> FromStr is idempotent; malformed strings are errors, never panics
    for s in &p.strings {
        match s.parse::<FilterKind>() {
            Err(_) => {
                o.class("string/rejected");
            }
            Ok(f1) => {
                o.class("string/parsed");
                let s2 = f1.to_string();
                match s2.parse::<FilterKind>() {
                    Ok(f2) if f2 == f1 => {}
                    other => {
                        o.fail("C15/filter-fromstr-idempotent", format!("{:?} parses to {:?}, displays as {:?}, which parses to {:?}", s, f1, s2, other.map_err(|e| e.to_string())));
                        return o;
                    }
                }
                // independent reading of the grammar
                let mut it = s.splitn(3, ':');
                let (k, e, rest) = (it.next().unwrap_or(""), it.next().unwrap_or(""), it.next().unwrap_or(""));
                let bytes = if e == "utf8" { Some(rest.as_bytes().to_vec()) } else if e == "hex" { hex::decode(rest).ok() } else { None };
                let want = match (k, bytes) {
                    ("exact", Some(b)) => Some(FilterKind::Exact(b.into())),
                    ("prefix", Some(b)) => Some(FilterKind::Prefix(b.into())),
                    _ => None,
                };
                if want.as_ref() != Some(&f1) {
                    o.fail("C15/filter-fromstr-grammar", format!("{:?} parsed to {:?}, the grammar says {:?}", s, f1, want));
                    return o;
                }
            }
        }
    }
    o
}

fn check_store(ctx: &mut Ctx, c: &StoreCase) -> Outcome {
    let mut o = Outcome::default();
    o.class(if c.file { "store/file" } else { "store/memory" });
    let r: R<()> = (|| {
        let mut st = AnyStore::new(ctx, c.file)?;
        let nssec = namespace(0).clone();
        let ns = nssec.id();
        let ns2 = namespace(1).id();
        let missing = namespace(2).id();
        es(st.store.import_namespace(nssec.clone().into()))?;
        es(st.store.import_namespace(namespace(1).clone().into()))?;
        let default = DownloadPolicy::default();
        if es(st.store.get_download_policy(&ns))? != default || es(st.store.get_download_policy(&missing))? != default {
            o.fail("C15/default-policy", "a document that never had a policy must report 'everything'");
        }
        let mut current: [Option<PSpec>; 2] = [None, None];
        for (pi, (slot, p)) in c.policies.iter().enumerate() {
            let policy = to_policy(p);
            match slot {
                2 => {
                    if st.store.set_download_policy(&missing, policy).is_ok() {
                        o.fail("C15/set-on-missing", "set_download_policy on a document that does not exist succeeded");
                        break;
                    }
                    let listed: Vec<_> = es(st.store.list_namespaces())?.collect();
                    if listed.len() != 2 || es(st.store.get_download_policy(&missing))? != default {
                        o.fail("C15/set-on-missing", "a failed set created something");
                        break;
                    }
                    o.class("set-on-missing");
                }
                s => {
                    let target = if *s == 0 { ns } else { ns2 };
                    es(st.store.set_download_policy(&target, policy))?;
                    current[*s as usize] = Some(p.clone());
                }
            }
            for (i, target) in [ns, ns2].iter().enumerate() {
                let want = current[i].as_ref().map(to_policy).unwrap_or_default();
                let got = es(st.store.get_download_policy(target))?;
                if got != want {
                    o.fail("C15/get-after-set", format!("document {i}: get = {:?}, last set = {:?}", got, want));
                }
            }
            if let Some(Some((d, write))) = c.reimports.get(pi) {
                let cap = if *write { iroh_docs::Capability::Write(namespace(*d).clone()) } else { iroh_docs::Capability::Read(namespace(*d).id()) };
                es(st.store.import_namespace(cap))?;
                o.class("capability-imported-again-after-a-policy-was-set");
                for (i, target) in [ns, ns2].iter().enumerate() {
                    let want = current[i].as_ref().map(to_policy).unwrap_or_default();
                    let got = es(st.store.get_download_policy(target))?;
                    if got != want {
                        o.fail("C15/get-after-set", format!("document {i}: after importing a capability for document {d} again (write = {write}) get = {:?}, last set = {:?}", got, want));
                    }
                }
            }
        }
        if o.failed() {
            st.cleanup();
            return Ok(());
        }
        st = st.reopen()?;
        for (i, target) in [ns, ns2].iter().enumerate() {
            let want = current[i].as_ref().map(to_policy).unwrap_or_default();
            let got = es(st.store.get_download_policy(target))?;
            if got != want {
                o.fail("C15/get-after-reopen", format!("document {i}: get = {:?}, last set = {:?}", got, want));
            }
        }
        // events: should_download of remote inserts = oracle(policy, key)
        let mut pol = current[0].clone().unwrap_or(PSpec { nothing_except: false, filters: vec![] });
        let AnyStore { store, path } = st;
        let h = act::spawn(store);
        verif::set_clock(Some(T0 + 3));
        let res: R<()> = ctx.rt.block_on(async {
            let (tx, rx) = async_channel::bounded(64);
            es(h.open(ns, OpenOpts::default().sync().subscribe(tx)).await)?;
            for (i, k) in c.keys.iter().enumerate() {
                for (at, p) in &c.live_changes {
                    if crate::engine::idx(*at, c.keys.len()) == i {
                        // the policy changes while the document is open and has already received entries
                        es(h.set_download_policy(ns, to_policy(p)).await)?;
                        pol = p.clone();
                        if es(h.get_download_policy(ns).await)? != to_policy(p) {
                            o.fail("C15/get-after-set", "through the actor, while open: get does not return the policy just set".to_string());
                        }
                        if i > 0 {
                            o.class("policy-changed-while-open-after-entries-arrived");
                        }
                    }
                }
                let key = resolve_key(k, &pol);
                note_nontrivial(&mut o, &pol, &key);
                let e = sign(&nssec, &ESpec { a: (i % 3) as u8, k: key.clone(), t: T0 + i as u64, c: 1 });
                let r = h.insert_remote(ns, e.clone(), [5u8; 32], ContentStatus::Complete).await;
                let evs = act::drain(&rx);
                if r.is_ok() {
                    match evs.as_slice() {
                        [Event::RemoteInsert { should_download, entry, .. }] if entry == &e => {
                            if *should_download != oracle(&pol, &key) {
                                o.fail("C15/should-download", format!("policy {:?} key {}: event says {}, definition says {}", to_policy(&pol), hex::encode(&key), should_download, oracle(&pol, &key)));
                            }
                        }
                        other => {
                            o.fail("C15/event-shape", format!("expected one RemoteInsert event, got {} events", other.len()));
                        }
                    }
                }
            }
            let _ = h.shutdown().await;
            Ok(())
        });
        verif::set_clock(None);
        drop(h);
        if let Some(p) = path {
            let _ = std::fs::remove_file(p);
        }
        res
    })();
    if let Err(e) = r {
        o.fail("C15/harness-error", e);
    }
    let _: Option<Store> = None;
    o
}

/// "Once set, returned unchanged by later reads and after reopening": through `Doc::set_download_policy` /
/// `Doc::get_download_policy` of a real engine, with a restart from disk for file-backed cases.
fn check_api(ctx: &mut Ctx, c: &StoreCase) -> Outcome {
    use crate::props::c07::{api_fixture, within};
    use iroh_docs::protocol::Docs;
    let mut o = Outcome::default();
    o.class(if c.file { "client-api/file" } else { "client-api/memory" });
    let r: R<()> = (|| {
        let (endpoint, gossip, blobs) = api_fixture(ctx)?;
        let dir = if c.file { Some(ctx.fresh_path("c15api-dir")) } else { None };
        let res: R<()> = ctx.rt.block_on(async {
            let spawn = || async {
                let b = match &dir {
                    Some(d) => {
                        es(std::fs::create_dir_all(d))?;
                        Docs::persistent(d.clone())
                    }
                    None => Docs::memory(),
                };
                within("spawning the engine", b.spawn(endpoint.clone(), blobs.clone(), gossip.clone())).await?.map_err(|e| format!("spawn: {e:?}"))
            };
            let mut docs = spawn().await?;
            let mut handles = vec![];
            for d in 0..2u8 {
                handles.push(es(within("import", docs.import_namespace(namespace(d).clone().into())).await?)?);
            }
            let default = DownloadPolicy::default();
            for h in &handles {
                if es(within("get", h.get_download_policy()).await?)? != default {
                    o.fail("C15/default-policy", "through the client API: a document that never had a policy must report 'everything'");
                }
            }
            let mut current: [Option<PSpec>; 2] = [None, None];
            let mut extra = vec![];
            for (pi, (slot, p)) in c.policies.iter().enumerate() {
                let s = *slot as usize % 2;
                if let Some(Some((d, write))) = c.reimports.get(pi) {
                    // a capability arrives again (e.g. the document is joined once more through a ticket)
                    let cap = if *write { iroh_docs::Capability::Write(namespace(*d).clone()) } else { iroh_docs::Capability::Read(namespace(*d).id()) };
                    extra.push(es(within("import", docs.import_namespace(cap)).await?)?);
                    o.class("capability-imported-again-after-a-policy-was-set");
                    for (i, h) in handles.iter().take(2).enumerate() {
                        let want = current[i].as_ref().map(to_policy).unwrap_or_default();
                        let got = es(within("get", h.get_download_policy()).await?)?;
                        if got != want {
                            o.fail("C15/get-after-set", format!("through the client API, document {i}: after importing a capability for document {d} again (write = {write}) get = {:?}, last set = {:?}", got, want));
                        }
                    }
                }
                es(within("set", handles[s].set_download_policy(to_policy(p))).await?)?;
                current[s] = Some(p.clone());
                if p.filters.len() >= 2 {
                    o.nontrivial = true;
                }
                for (i, h) in handles.iter().enumerate() {
                    let want = current[i].as_ref().map(to_policy).unwrap_or_default();
                    let got = es(within("get", h.get_download_policy()).await?)?;
                    if got != want {
                        o.fail("C15/get-after-set", format!("through the client API, document {i}: get = {:?}, last set = {:?}", got, want));
                    }
                }
                if o.failed() {
                    break;
                }
            }
            if dir.is_some() && !o.failed() {
                handles.clear();
                extra.clear();
                within("shutdown", iroh::protocol::ProtocolHandler::shutdown(&docs)).await?;
                docs = spawn().await?;
                o.class("client-api/engine-restarted-from-disk");
                for d in 0..2u8 {
                    let h = es(within("open", docs.open(namespace(d).id())).await?)?.ok_or("document gone after the restart")?;
                    let want = current[d as usize].as_ref().map(to_policy).unwrap_or_default();
                    let got = es(within("get", h.get_download_policy()).await?)?;
                    if got != want {
                        o.fail("C15/get-after-reopen", format!("through the client API, after a restart, document {d}: get = {:?}, last set = {:?}", got, want));
                    }
                }
            }
            handles.clear();
            within("shutdown", iroh::protocol::ProtocolHandler::shutdown(&docs)).await?;
            Ok(())
        });
        if let Some(d) = dir {
            let _ = std::fs::remove_dir_all(d);
        }
        res
    })();
    if let Err(e) = r {
        o.fail(if e.starts_with("harness-timeout") { "C15/harness-timeout" } else { "C15/harness-error" }, e);
    }
    o
}
