//! C07 Write capability is required to author entries and is never lost.

use std::collections::BTreeMap;

use iroh_docs::{
    actor::OpenOpts,
    store::{ImportNamespaceOutcome, OpenError, Store},
    sync::InsertError,
    verif, Capability, ContentStatus, NamespaceId, SignedEntry,
};
use proptest::{collection::vec, prelude::*};
use serde::{Deserialize, Serialize};

use crate::{
    act,
    common::*,
    engine::{Ctx, Outcome, Prop, Tier},
};

pub struct C07;

#[derive(Serialize, Deserialize, Clone, Debug)]
pub enum Step {
    ImportRead(u8),
    ImportWrite(u8),
    Open(u8),
    Close(u8),
    LocalInsert(u8),
    LocalDelete(u8),
    RemoteInsert(u8),
    ExportSecret(u8),
    Reopen,
    /// set_download_policy for the document: a store mutation that fails when the document does not exist
    SetPolicy(u8),
    /// register_useful_peer for the document: fails when the document does not exist
    RegisterPeer(u8),
    /// remove the document (through the actor: drop_replica, which releases one handle and is refused while another
    /// handle is still open); a removed document has no capability at all
    Drop(u8),
}

#[derive(Serialize, Deserialize, Clone, Debug)]
pub struct Case {
    pub file: bool,
    pub via_actor: bool,
    pub steps: Vec<Step>,
    /// observe the listed kinds and contents only after a reopen and at the end (the observing reads commit the open
    /// transaction, so observing after every step hides everything that depends on writes still being uncommitted)
    #[serde(default)]
    pub sparse_observe: bool,
    /// the same kind of history through the client API of a real `Docs` engine (RPC actor in front of the store actor):
    /// imports hand back document handles that stay open, writes go through `set_bytes` / `del`, restarts re-spawn the
    /// engine on the same directory. When set, `steps` is ignored.
    #[serde(default)]
    pub api: Option<Vec<ApiStep>>,
}

#[derive(Serialize, Deserialize, Clone, Debug)]
pub enum ApiStep {
    /// import a capability for document d (true = the write secret); the returned handle is kept open
    Import(u8, bool),
    /// open one more handle
    Open(u8),
    /// close the oldest handle held for d
    Close(u8),
    Set(u8, u8),
    Del(u8, u8),
    /// close every handle held for d and drop the document
    Drop(u8),
    /// stop the engine and spawn it again on the same directory (file-backed cases)
    Restart,
}

#[derive(Clone, Copy, PartialEq, Eq, Debug)]
enum Cap {
    Absent,
    Read,
    Write,
}

impl Prop for C07 {
    type Case = Case;
    const ID: &'static str = "C07";

    fn rule() -> String {
        "histories of <= 25 (thorough 60) steps over 3 documents: import Read/Write in any order, open/close, local insert, local delete, \
         remote insert of a validly signed entry, export secret, reopen (file), run against Store/Replica or against the store actor; \
         a capability model (Write absorbing) predicts every reply, the listed kinds and the contents of every document after every \
         step; non-trivial = some document sees Read, then Write, then Read imports with a write attempt after each, or an import \
         arrives while the document is open in the actor; distinct by serialised case"
            .into()
    }

    fn cases(tier: Tier) -> u64 {
        tier.pick(60_000, 1_000_000)
    }

    fn strategy(tier: Tier) -> BoxedStrategy<Case> {
        let max = tier.pick(25, 60);
        let d = || prop_oneof![3 => Just(0u8), 1 => 1u8..3];
        let step = prop_oneof![
            3 => d().prop_map(Step::ImportRead),
            3 => d().prop_map(Step::ImportWrite),
            5 => d().prop_map(Step::Open),
            1 => d().prop_map(Step::Close),
            4 => d().prop_map(Step::LocalInsert),
            2 => d().prop_map(Step::LocalDelete),
            2 => d().prop_map(Step::RemoteInsert),
            1 => d().prop_map(Step::ExportSecret),
            1 => Just(Step::Reopen),
            1 => d().prop_map(Step::SetPolicy),
            1 => d().prop_map(Step::RegisterPeer),
            1 => d().prop_map(Step::Drop),
        ];
        let plain = vec(step.clone(), 1..=max);
        // the downgrade scenario with random steps in between
        let scenario = (0u8..3, vec(vec(step, 0..=2), 7)).prop_map(|(d, mut gaps)| {
            let spine = [Step::ImportRead(d), Step::LocalInsert(d), Step::ImportWrite(d), Step::LocalInsert(d), Step::ImportRead(d), Step::LocalDelete(d)];
            let mut steps = vec![Step::Open(d)];
            for s in spine {
                steps.extend(gaps.pop().unwrap_or_default());
                steps.push(s);
            }
            steps.extend(gaps.pop().unwrap_or_default());
            steps
        });
        let base = (prop::bool::weighted(0.3), any::<bool>(), prop_oneof![3 => plain, 1 => scenario], any::<bool>())
            .prop_map(|(file, via_actor, steps, sparse_observe)| Case { file, via_actor, steps, sparse_observe, api: None });
        let astep = prop_oneof![
            5 => (d(), any::<bool>()).prop_map(|(d, w)| ApiStep::Import(d, w)),
            2 => d().prop_map(ApiStep::Open),
            3 => d().prop_map(ApiStep::Close),
            5 => (d(), 0u8..4).prop_map(|(d, k)| ApiStep::Set(d, k)),
            2 => (d(), 0u8..4).prop_map(|(d, k)| ApiStep::Del(d, k)),
            1 => d().prop_map(ApiStep::Drop),
            1 => Just(ApiStep::Restart),
        ];
        let api = (prop::bool::weighted(0.3), vec(astep, 1..=14)).prop_map(|(file, steps)| Case { file, via_actor: false, steps: vec![], sparse_observe: false, api: Some(steps) });
        prop_oneof![60 => base, 1 => api].boxed()
    }

    fn check(ctx: &mut Ctx, c: &Case) -> Outcome {
        let mut o = Outcome::default();
        if let Some(steps) = &c.api {
            let r = check_api(ctx, c.file, steps, &mut o);
            verif::set_clock(None);
            if let Err(e) = r {
                o.fail(if e.starts_with("harness-timeout") { "C07/harness-timeout" } else { "C07/harness-error" }, e);
            }
            return o;
        }
        o.class(if c.via_actor { "via-actor" } else { "via-store" });
        if c.sparse_observe {
            o.class("observed-only-after-reopen-and-at-the-end");
        }
        let r = if c.via_actor { check_actor(ctx, c, &mut o) } else { check_store(ctx, c, &mut o) };
        verif::set_clock(None);
        if let Err(e) = r {
            o.fail("C07/harness-error", e);
        }
        o
    }
}

/// Tracks, per document, the sequence Read import -> write attempt -> Write import -> write attempt -> Read import -> write attempt.
#[derive(Default, Clone)]
struct Progress(u8);
impl Progress {
    fn on(&mut self, ev: u8) {
        // events: 0 = import read, 1 = import write, 2 = write attempt
        let want = [0u8, 2, 1, 2, 0, 2];
        if (self.0 as usize) < want.len() && want[self.0 as usize] == ev {
            self.0 += 1;
        }
    }
    fn done(&self) -> bool {
        self.0 >= 6
    }
}

fn expect_import(cap: Cap, write: bool) -> (&'static str, Cap) {
    match (cap, write) {
        (Cap::Absent, true) => ("Inserted", Cap::Write),
        (Cap::Absent, false) => ("Inserted", Cap::Read),
        (Cap::Read, true) => ("Upgraded", Cap::Write),
        (Cap::Read, false) => ("NoChange", Cap::Read),
        (Cap::Write, _) => ("NoChange", Cap::Write),
    }
}

fn outcome_name(o: ImportNamespaceOutcome) -> &'static str {
    match o {
        ImportNamespaceOutcome::Inserted => "Inserted",
        ImportNamespaceOutcome::Upgraded => "Upgraded",
        ImportNamespaceOutcome::NoChange => "NoChange",
    }
}

fn cap_of(d: u8, write: bool) -> Capability {
    if write {
        Capability::Write(namespace(d).clone())
    } else {
        Capability::Read(namespace(d).id())
    }
}

fn kind_str(c: Cap) -> Option<&'static str> {
    match c {
        Cap::Absent => None,
        Cap::Read => Some("Read"),
        Cap::Write => Some("Write"),
    }
}

fn check_store(ctx: &mut Ctx, c: &Case, o: &mut Outcome) -> R<()> {
    let mut st = AnyStore::new(ctx, c.file)?;
    let mut caps = [Cap::Absent; 3];
    let mut models: Vec<Model> = vec![Model::default(); 3];
    let mut prog = vec![Progress::default(); 3];
    let ids: Vec<NamespaceId> = (0..3).map(|d| namespace(d).id()).collect();
    for (i, s) in c.steps.iter().enumerate() {
        let now = T0 + 10 + i as u64;
        verif::set_clock(Some(now));
        match s {
            Step::ImportRead(d) | Step::ImportWrite(d) => {
                let write = matches!(s, Step::ImportWrite(_));
                let (want, next) = expect_import(caps[*d as usize], write);
                let got = es(st.store.import_namespace(cap_of(*d, write)))?;
                if outcome_name(got) != want {
                    o.fail("C07/import-outcome", format!("step {i} {:?} on {:?}: outcome {:?}, expected {want}", s, caps[*d as usize], got));
                    break;
                }
                caps[*d as usize] = next;
                prog[*d as usize].on(if write { 1 } else { 0 });
            }
            Step::Open(_) | Step::Close(_) => {}
            Step::LocalInsert(d) | Step::LocalDelete(d) => {
                let du = *d as usize;
                prog[du].on(2);
                let key = if matches!(s, Step::LocalInsert(_)) { vec![b'k', i as u8] } else { vec![b'k'] };
                let e = sign(namespace(*d), &ESpec { a: 0, k: key.clone(), t: now, c: if matches!(s, Step::LocalInsert(_)) { 1 } else { 0 } });
                let res: Result<Result<usize, InsertError>, OpenError> = ctx.rt.block_on(async {
                    let mut r = st.store.open_replica(&ids[du])?;
                    Ok(if matches!(s, Step::LocalInsert(_)) {
                        r.insert(&key, author(0), e.content_hash(), e.content_len()).await
                    } else {
                        r.delete_prefix(&key, author(0)).await
                    })
                });
                st.store.close_replica(ids[du]);
                match (caps[du], res) {
                    (Cap::Absent, Err(OpenError::NotFound)) => {}
                    (Cap::Read, Ok(Err(InsertError::ReadOnly))) => {
                        o.class("write-refused-readonly");
                    }
                    (Cap::Write, Ok(Ok(n))) => {
                        let exp = models[du].apply(&e);
                        if exp != Some(n) {
                            o.fail("C07/write-result", format!("step {i}: removed {n}, model {:?}", exp));
                            break;
                        }
                        o.class("write-accepted");
                    }
                    (cap, res) => {
                        o.fail(
                            "C07/write-vs-capability",
                            format!("step {i} {:?} with capability {:?}: got {:?}", s, cap, res.map(|r| r.map_err(|e| e.to_string())).map_err(|e| e.to_string())),
                        );
                        break;
                    }
                }
            }
            Step::RemoteInsert(d) => {
                let du = *d as usize;
                let e = sign(namespace(*d), &ESpec { a: 1, k: vec![b'r', i as u8], t: now, c: 2 });
                let res: Result<Result<usize, InsertError>, OpenError> = ctx.rt.block_on(async {
                    let mut r = st.store.open_replica(&ids[du])?;
                    Ok(r.insert_remote_entry(e.clone(), [4u8; 32], ContentStatus::Missing).await)
                });
                st.store.close_replica(ids[du]);
                match (caps[du], res) {
                    (Cap::Absent, Err(OpenError::NotFound)) => {}
                    (Cap::Read, Ok(Ok(_))) | (Cap::Write, Ok(Ok(_))) => {
                        models[du].apply(&e);
                        if caps[du] == Cap::Read {
                            o.class("remote-accepted-on-readonly");
                        }
                    }
                    (cap, res) => {
                        o.fail("C07/remote-vs-capability", format!("step {i} with capability {:?}: {:?}", cap, res.map(|r| r.map_err(|e| e.to_string())).map_err(|e| e.to_string())));
                        break;
                    }
                }
            }
            Step::ExportSecret(d) => {
                let du = *d as usize;
                let res = st.store.open_replica(&ids[du]).map(|r| r.secret_key().map(|s| s.to_bytes()).ok());
                st.store.close_replica(ids[du]);
                let ok = match (caps[du], res) {
                    (Cap::Absent, Err(OpenError::NotFound)) => true,
                    (Cap::Read, Ok(None)) => true,
                    (Cap::Write, Ok(Some(b))) => b == namespace(*d).to_bytes(),
                    _ => false,
                };
                if !ok {
                    o.fail("C07/export-secret", format!("step {i} with capability {:?}", caps[du]));
                    break;
                }
            }
            Step::Reopen => {
                st = st.reopen()?;
                o.class("reopen");
            }
            Step::Drop(d) => {
                let du = *d as usize;
                if let Err(e) = st.store.remove_replica(&ids[du]) {
                    o.fail("C07/drop", format!("step {i}: removing a closed document failed: {e:?}"));
                    break;
                }
                caps[du] = Cap::Absent;
                models[du] = Model::default();
                prog[du] = Progress::default();
                o.class("document-removed");
            }
            Step::SetPolicy(d) | Step::RegisterPeer(d) => {
                let du = *d as usize;
                let r = if matches!(s, Step::SetPolicy(_)) {
                    st.store.set_download_policy(&ids[du], iroh_docs::store::DownloadPolicy::default()).map_err(|e| e.to_string())
                } else {
                    st.store.register_useful_peer(ids[du], [i as u8; 32]).map_err(|e| e.to_string())
                };
                if r.is_ok() != (caps[du] != Cap::Absent) {
                    o.fail("C07/settings-vs-existence", format!("step {i} {:?} with capability {:?}: {:?}", s, caps[du], r));
                    break;
                }
                if r.is_err() {
                    o.class("failing-store-mutation");
                }
            }
        }
        if c.sparse_observe && !matches!(s, Step::Reopen) && i + 1 != c.steps.len() {
            continue;
        }
        // every document: listed kind and contents
        let mut listed: BTreeMap<[u8; 32], String> = BTreeMap::new();
        for x in es(st.store.list_namespaces())? {
            let (id, k) = es(x)?;
            listed.insert(id.to_bytes(), act::kind_name(k).to_string());
        }
        for d in 0..3usize {
            let got = listed.get(&ids[d].to_bytes()).map(|s| s.as_str());
            if got != kind_str(caps[d]) {
                o.fail("C07/listed-kind", format!("step {i} {:?}: document {d} is listed as {:?}, model {:?}", s, got, caps[d]));
                break;
            }
            let dd = dump(&mut st.store, ids[d])?;
            if dd != models[d].dump() {
                o.fail("C07/contents", format!("step {i} {:?}: document {d} holds {} expected {}", s, describe_all(&dd), describe_all(&models[d].dump())));
                break;
            }
        }
        if o.failed() {
            break;
        }
    }
    if prog.iter().any(|p| p.done()) {
        o.nontrivial = true;
        o.class("read-write-read-with-attempts");
    }
    st.cleanup();
    Ok(())
}

fn check_actor(ctx: &mut Ctx, c: &Case, o: &mut Outcome) -> R<()> {
    let st = AnyStore::new(ctx, c.file)?;
    let AnyStore { store, path } = st;
    let ids: Vec<NamespaceId> = (0..3).map(|d| namespace(d).id()).collect();
    let res: R<()> = ctx.rt.block_on(async {
        let mut h = act::spawn(store);
        es(h.import_author(author(0).clone()).await)?;
        let mut caps = [Cap::Absent; 3];
        let mut handles = [0usize; 3];
        let mut models: Vec<Model> = vec![Model::default(); 3];
        let mut prog = vec![Progress::default(); 3];
        for (i, s) in c.steps.iter().enumerate() {
            let now = T0 + 10 + i as u64;
            verif::set_clock(Some(now));
            match s {
                Step::ImportRead(d) | Step::ImportWrite(d) => {
                    let du = *d as usize;
                    let write = matches!(s, Step::ImportWrite(_));
                    let (_, next) = expect_import(caps[du], write);
                    let got = es(h.import_namespace(cap_of(*d, write)).await)?;
                    if got != ids[du] {
                        o.fail("C07/import-outcome", format!("step {i}: import returned another id"));
                        break;
                    }
                    if handles[du] > 0 {
                        o.class("import-while-open");
                        o.nontrivial = true;
                    }
                    caps[du] = next;
                    prog[du].on(if write { 1 } else { 0 });
                }
                Step::Open(d) => {
                    let du = *d as usize;
                    let r = h.open(ids[du], OpenOpts::default().sync()).await;
                    match (caps[du], r.is_ok()) {
                        (Cap::Absent, false) => {}
                        (Cap::Read, true) | (Cap::Write, true) => handles[du] += 1,
                        (cap, ok) => {
                            o.fail("C07/open", format!("step {i}: open with capability {:?} returned ok={ok}", cap));
                            break;
                        }
                    }
                }
                Step::Close(d) => {
                    let du = *d as usize;
                    let r = es(h.close(ids[du]).await)?;
                    if handles[du] > 0 {
                        handles[du] -= 1;
                    }
                    if r != (handles[du] == 0) {
                        o.fail("C07/close", format!("step {i}: close returned {r} with {} handles left", handles[du]));
                        break;
                    }
                }
                Step::LocalInsert(d) | Step::LocalDelete(d) => {
                    let du = *d as usize;
                    prog[du].on(2);
                    let insert = matches!(s, Step::LocalInsert(_));
                    let key = if insert { vec![b'k', i as u8] } else { vec![b'k'] };
                    let e = sign(namespace(*d), &ESpec { a: 0, k: key.clone(), t: now, c: if insert { 1 } else { 0 } });
                    let r = if insert {
                        h.insert_local(ids[du], author(0).id(), key.clone().into(), e.content_hash(), e.content_len()).await.map(|_| 0usize)
                    } else {
                        h.delete_prefix(ids[du], author(0).id(), key.clone().into()).await
                    };
                    let should = handles[du] > 0 && caps[du] == Cap::Write;
                    if r.is_ok() != should {
                        o.fail(
                            "C07/write-vs-capability",
                            format!("step {i} {:?}: capability {:?}, {} handles: reply ok={} ({:?})", s, caps[du], handles[du], r.is_ok(), r.as_ref().err().map(|e| e.to_string())),
                        );
                        break;
                    }
                    if should {
                        let exp = models[du].apply(&e);
                        if !insert && exp != r.as_ref().ok().copied() {
                            o.fail("C07/write-result", format!("step {i}: removed {:?}, model {:?}", r.ok(), exp));
                            break;
                        }
                        o.class("write-accepted");
                    } else if handles[du] > 0 && caps[du] == Cap::Read {
                        o.class("write-refused-readonly");
                    }
                }
                Step::RemoteInsert(d) => {
                    let du = *d as usize;
                    let e = sign(namespace(*d), &ESpec { a: 1, k: vec![b'r', i as u8], t: now, c: 2 });
                    let r = h.insert_remote(ids[du], e.clone(), [4u8; 32], ContentStatus::Missing).await;
                    let should = handles[du] > 0;
                    if r.is_ok() != should {
                        o.fail("C07/remote-vs-capability", format!("step {i}: capability {:?}, {} handles: ok={}", caps[du], handles[du], r.is_ok()));
                        break;
                    }
                    if should {
                        models[du].apply(&e);
                        if caps[du] == Cap::Read {
                            o.class("remote-accepted-on-readonly");
                        }
                    }
                }
                Step::ExportSecret(d) => {
                    let du = *d as usize;
                    let r = h.export_secret_key(ids[du]).await;
                    let should = handles[du] > 0 && caps[du] == Cap::Write;
                    let ok = match (&r, should) {
                        (Ok(s), true) => s.to_bytes() == namespace(*d).to_bytes(),
                        (Err(_), false) => true,
                        _ => false,
                    };
                    if !ok {
                        o.fail("C07/export-secret", format!("step {i}: capability {:?}, {} handles: ok={}", caps[du], handles[du], r.is_ok()));
                        break;
                    }
                }
                Step::Reopen => {
                    // shut the actor down, reopen the store (file) or keep it (memory), start a new actor
                    let store = es(h.shutdown().await)?;
                    let store = match &path {
                        Some(p) => {
                            drop(store);
                            es(Store::persistent(p))?
                        }
                        None => store,
                    };
                    h = act::spawn(store);
                    handles = [0; 3];
                    o.class("reopen");
                }
                Step::Drop(d) => {
                    let du = *d as usize;
                    let r = h.drop_replica(ids[du]).await;
                    if handles[du] > 0 {
                        handles[du] -= 1;
                    }
                    let should = handles[du] == 0;
                    if r.is_ok() != should {
                        o.fail("C07/drop", format!("step {i}: drop_replica returned ok={} with {} handles left open", r.is_ok(), handles[du]));
                        break;
                    }
                    if should {
                        caps[du] = Cap::Absent;
                        models[du] = Model::default();
                        prog[du] = Progress::default();
                        o.class("document-removed");
                    } else {
                        o.class("drop-refused-still-open");
                    }
                }
                Step::SetPolicy(d) | Step::RegisterPeer(d) => {
                    let du = *d as usize;
                    let r = if matches!(s, Step::SetPolicy(_)) {
                        h.set_download_policy(ids[du], iroh_docs::store::DownloadPolicy::default()).await.map_err(|e| e.to_string())
                    } else {
                        h.register_useful_peer(ids[du], [i as u8; 32]).await.map_err(|e| e.to_string())
                    };
                    if r.is_ok() != (caps[du] != Cap::Absent) {
                        o.fail("C07/settings-vs-existence", format!("step {i} {:?} with capability {:?}: {:?}", s, caps[du], r));
                        break;
                    }
                    if r.is_err() {
                        o.class("failing-store-mutation");
                    }
                }
            }
            if c.sparse_observe && !matches!(s, Step::Reopen) && i + 1 != c.steps.len() {
                continue;
            }
            // listed kinds, and contents of every open document
            let listed: BTreeMap<[u8; 32], String> = act::list_replicas(&h).await?.into_iter().map(|(id, k)| (id.to_bytes(), act::kind_name(k).to_string())).collect();
            for d in 0..3usize {
                let got = listed.get(&ids[d].to_bytes()).map(|s| s.as_str());
                if got != kind_str(caps[d]) {
                    o.fail("C07/listed-kind", format!("step {i} {:?}: document {d} is listed as {:?}, model {:?}", s, got, caps[d]));
                    break;
                }
                let st = h.get_state(ids[d]).await;
                if st.is_ok() != (handles[d] > 0) || st.as_ref().map(|s| s.handles != handles[d]).unwrap_or(false) {
                    o.fail("C07/open-state", format!("step {i} {:?}: document {d} state {:?}, model handles {}", s, st.ok(), handles[d]));
                    break;
                }
                if handles[d] > 0 {
                    let dd = act::dump(&h, ids[d]).await?;
                    if dd != models[d].dump() {
                        o.fail("C07/contents", format!("step {i} {:?}: document {d} holds {} expected {}", s, describe_all(&dd), describe_all(&models[d].dump())));
                        break;
                    }
                }
            }
            if o.failed() {
                break;
            }
        }
        if prog.iter().any(|p| p.done()) {
            o.nontrivial = true;
            o.class("read-write-read-with-attempts");
        }
        let _ = h.shutdown().await;
        Ok(())
    });
    if let Some(p) = path {
        let _ = std::fs::remove_file(p);
    }
    let _: Option<SignedEntry> = None;
    res
}

// ------------------------------------------------------------------------------------------------
// the client API of a real engine

pub struct ApiFixture {
    pub endpoint: iroh::Endpoint,
    pub gossip: iroh_gossip::net::Gossip,
    pub blobs: iroh_blobs::api::Store,
}

/// The endpoint, gossip and blob store shared by the client-API families of a worker (built once).
pub fn api_fixture(ctx: &mut Ctx) -> R<(iroh::Endpoint, iroh_gossip::net::Gossip, iroh_blobs::api::Store)> {
    if !ctx.fixtures.contains_key("c07api") {
        let f: R<ApiFixture> = ctx.rt.block_on(async {
            use iroh::{endpoint::presets, Endpoint};
            let endpoint = es(Endpoint::builder(presets::Minimal).bind().await)?;
            let gossip = iroh_gossip::net::Gossip::builder().spawn(endpoint.clone());
            let blobs = iroh_blobs::store::mem::MemStore::new();
            Ok(ApiFixture { endpoint, gossip, blobs: (*blobs).clone() })
        });
        ctx.fixtures.insert("c07api", Box::new(f?));
    }
    let fx = ctx.fixtures.get("c07api").and_then(|f| f.downcast_ref::<ApiFixture>()).ok_or("fixture")?;
    Ok((fx.endpoint.clone(), fx.gossip.clone(), fx.blobs.clone()))
}

pub async fn within<T>(what: &str, f: impl std::future::Future<Output = T>) -> R<T> {
    tokio::time::timeout(std::time::Duration::from_secs(30), f).await.map_err(|_| format!("harness-timeout: {what} did not return within 30 s"))
}

fn check_api(ctx: &mut Ctx, file: bool, steps: &[ApiStep], o: &mut Outcome) -> R<()> {
    use futures_util::StreamExt;
    use iroh_docs::{api::Doc, protocol::Docs, Capability, CapabilityKind};
    o.class(if file { "client-api/file" } else { "client-api/memory" });
    let (endpoint, gossip, blobs) = api_fixture(ctx)?;
    let dir = if file { Some(ctx.fresh_path("c07api-dir")) } else { None };
    let mut t = T0 + 5000;
    let res: R<()> = ctx.rt.block_on(async {
        let spawn = || async {
            let b = match &dir {
                Some(d) => {
                    es(std::fs::create_dir_all(d))?;
                    Docs::persistent(d.clone())
                }
                None => Docs::memory(),
            };
            within("spawning the engine", b.spawn(endpoint.clone(), blobs.clone(), gossip.clone())).await?.map_err(|e| format!("spawn: {e:?}"))
        };
        let mut docs = spawn().await?;
        let author = es(within("author_create", docs.author_create()).await?)?;
        let mut cap = [Cap::Absent; 3];
        let mut handles: Vec<Vec<Doc>> = vec![vec![], vec![], vec![]];
        let mut progress = vec![Progress::default(); 3];
        let mut upgraded_while_open = false;
        for (i, s) in steps.iter().enumerate() {
            t += 1;
            verif::set_clock(Some(t));
            let what = format!("step {i} {:?}", s);
            match s {
                ApiStep::Import(d, write) => {
                    let du = *d as usize;
                    let c = if *write { Capability::Write(namespace(*d).clone()) } else { Capability::Read(namespace(*d).id()) };
                    let doc = within("import_namespace", docs.import_namespace(c)).await?.map_err(|e| format!("{what}: import failed: {e:?}"))?;
                    if *write && cap[du] == Cap::Read && !handles[du].is_empty() {
                        upgraded_while_open = true;
                        o.class("client-api/write-secret-imported-while-the-read-only-document-is-open");
                    }
                    handles[du].push(doc);
                    cap[du] = match (cap[du], *write) {
                        (_, true) | (Cap::Write, _) => Cap::Write,
                        _ => Cap::Read,
                    };
                    progress[du].on(if *write { 1 } else { 0 });
                }
                ApiStep::Open(d) => {
                    let du = *d as usize;
                    let r = within("open", docs.open(namespace(*d).id())).await?;
                    match (cap[du] != Cap::Absent, r) {
                        (true, Ok(Some(doc))) => handles[du].push(doc),
                        (false, Err(_)) | (false, Ok(None)) => {}
                        (exists, r) => {
                            o.fail("C07/open", format!("{what}: the document {} but open returned {:?}", if exists { "exists" } else { "does not exist" }, r.map(|d| d.is_some()).map_err(|e| e.to_string())));
                            break;
                        }
                    }
                }
                ApiStep::Close(d) => {
                    let du = *d as usize;
                    if !handles[du].is_empty() {
                        let h = handles[du].remove(0);
                        es(within("close", h.close()).await?)?;
                    }
                }
                ApiStep::Set(d, k) | ApiStep::Del(d, k) => {
                    let du = *d as usize;
                    if cap[du] == Cap::Absent {
                        continue;
                    }
                    if handles[du].is_empty() {
                        match es(within("open", docs.open(namespace(*d).id())).await?)? {
                            Some(doc) => handles[du].push(doc),
                            None => return Err(format!("{what}: an existing document could not be opened")),
                        }
                    }
                    let h = handles[du].last().unwrap();
                    let key = vec![b'k', *k];
                    let ok = if matches!(s, ApiStep::Set(..)) {
                        within("set_bytes", h.set_bytes(author, key.clone(), format!("v{i}"))).await?.is_ok()
                    } else {
                        within("del", h.del(author, key.clone())).await?.is_ok()
                    };
                    progress[du].on(2);
                    if ok != (cap[du] == Cap::Write) {
                        o.fail(
                            "C07/write-vs-capability",
                            format!("{what} (client API, {} handles open): the write {} although the document's capability is {:?}", handles[du].len(), if ok { "succeeded" } else { "was refused" }, cap[du]),
                        );
                        break;
                    }
                }
                ApiStep::Drop(d) => {
                    let du = *d as usize;
                    for h in handles[du].drain(..) {
                        let _ = within("close", h.close()).await?;
                    }
                    let r = within("drop_doc", docs.drop_doc(namespace(*d).id())).await?;
                    if cap[du] != Cap::Absent && r.is_err() {
                        o.fail("C07/drop", format!("{what}: dropping a closed document failed: {:?}", r.err().map(|e| e.to_string())));
                        break;
                    }
                    cap[du] = Cap::Absent;
                    progress[du] = Progress::default();
                }
                ApiStep::Restart => {
                    if dir.is_none() {
                        continue;
                    }
                    for hs in handles.iter_mut() {
                        hs.clear();
                    }
                    within("shutdown", iroh::protocol::ProtocolHandler::shutdown(&docs)).await?;
                    docs = spawn().await?;
                    o.class("client-api/engine-restarted-from-disk");
                }
            }
            // the listed kinds are the model's, for every document, after every step
            let mut listed = std::collections::BTreeMap::new();
            let mut stream = es(within("list", docs.list()).await?)?;
            while let Some(x) = within("list item", stream.next()).await? {
                let (id, kind) = es(x)?;
                listed.insert(id, kind);
            }
            for d in 0..3u8 {
                let got = listed.get(&namespace(d).id()).map(|k| match k {
                    CapabilityKind::Write => Cap::Write,
                    CapabilityKind::Read => Cap::Read,
                });
                if got.unwrap_or(Cap::Absent) != cap[d as usize] {
                    o.fail("C07/listed-kind", format!("{what} (client API): document {d} is listed as {:?}, the model says {:?}", got, cap[d as usize]));
                    break;
                }
            }
            if o.failed() {
                break;
            }
        }
        if progress.iter().any(|p| p.done()) || upgraded_while_open {
            o.nontrivial = true;
        }
        for hs in handles.iter_mut() {
            hs.clear();
        }
        within("shutdown", iroh::protocol::ProtocolHandler::shutdown(&docs)).await?;
        Ok(())
    });
    if let Some(d) = dir {
        let _ = std::fs::remove_dir_all(d);
    }
    res
}
