//! Decoder target bodies shared by the C09 property (proptest byte generators) and the cargo-fuzz
//! targets in /verif/fuzz. Each takes raw bytes and returns Err(text) if the semantic oracle inside
//! the target is violated (a panic is a violation too and is caught by the caller):
//! every decoder must return a value or an error, and a value must survive re-encoding.

use std::str::FromStr;

use bytes::BytesMut;
use iroh_docs::{
    store::{DownloadPolicy, FilterKind},
    sync::ProtocolMessage,
    verif::net::{Frame, FrameCodec},
    AuthorHeads, Capability, DocTicket, SignedEntry,
};
use iroh_tickets::Ticket;
use tokio_util::codec::{Decoder, Encoder};

pub const TARGETS: [&str; 10] = [
    "frame_stream",
    "frame_message",
    "signed_entry",
    "protocol_message",
    "author_heads",
    "ticket_bytes",
    "ticket_str",
    "capability",
    "download_policy",
    "filter_kind",
];

pub fn run_target(name: &str, data: &[u8]) -> Result<u64, String> {
    match name {
        "frame_stream" => t_frame_stream(data),
        "frame_message" => t_frame_message(data),
        "signed_entry" => t_signed_entry(data),
        "protocol_message" => t_protocol_message(data),
        "author_heads" => t_author_heads(data),
        "ticket_bytes" => t_ticket_bytes(data),
        "ticket_str" => t_ticket_str(data),
        "capability" => t_capability(data),
        "download_policy" => t_download_policy(data),
        "filter_kind" => t_filter_kind(data),
        _ => Err(format!("unknown target {name}")),
    }
}

/// Returns the number of values that decoded successfully (a measure of how deep the input got).
pub fn t_frame_stream(data: &[u8]) -> Result<u64, String> {
    if data.is_empty() {
        return Ok(0);
    }
    let chunk = (data[0] as usize % 23) + 1;
    let mut codec = FrameCodec::default();
    let mut buf = BytesMut::new();
    let mut frames = 0;
    for c in data[1..].chunks(chunk) {
        buf.extend_from_slice(c);
        loop {
            match codec.decode(&mut buf) {
                Ok(Some(f)) => {
                    frames += 1;
                    reencode_frame(&f)?;
                }
                Ok(None) => break,
                Err(_) => return Ok(frames),
            }
        }
    }
    Ok(frames)
}

pub fn reencode_frame(f: &Frame) -> Result<(), String> {
    let mut out = BytesMut::new();
    FrameCodec::default().encode(f.clone(), &mut out).map_err(|e| format!("a decoded frame does not encode: {e:?}"))?;
    let mut codec = FrameCodec::default();
    match codec.decode(&mut out) {
        Ok(Some(g)) => {
            if g.to_postcard() != f.to_postcard() {
                return Err("frame changed by encode/decode".into());
            }
            if !out.is_empty() {
                return Err("decoder left bytes behind after one encoded frame".into());
            }
            Ok(())
        }
        other => Err(format!("a re-encoded frame does not decode: {:?}", other.map(|o| o.is_some()).map_err(|e| e.to_string()))),
    }
}

pub fn t_frame_message(data: &[u8]) -> Result<u64, String> {
    match Frame::from_postcard(data) {
        Err(_) => Ok(0),
        Ok(f) => {
            reencode_frame(&f)?;
            Ok(1)
        }
    }
}

pub fn t_signed_entry(data: &[u8]) -> Result<u64, String> {
    match postcard::from_bytes::<SignedEntry>(data) {
        Err(_) => Ok(0),
        Ok(e) => {
            let enc = postcard::to_stdvec(&e).map_err(|e| e.to_string())?;
            let back: SignedEntry = postcard::from_bytes(&enc).map_err(|e| format!("re-decode: {e}"))?;
            if back != e {
                return Err("signed entry changed by encode/decode".into());
            }
            // the accessors and validators must cope with whatever decoded
            let _ = e.verify(&());
            let _ = e.validate_empty();
            let _ = (e.key().len(), e.timestamp(), e.content_len(), e.content_hash(), e.author(), e.namespace());
            let _ = iroh_docs::verif::entry_fingerprint(&e);
            Ok(1)
        }
    }
}

pub fn t_protocol_message(data: &[u8]) -> Result<u64, String> {
    match postcard::from_bytes::<ProtocolMessage>(data) {
        Err(_) => Ok(0),
        Ok(m) => {
            let enc = postcard::to_stdvec(&m).map_err(|e| e.to_string())?;
            let back: ProtocolMessage = postcard::from_bytes(&enc).map_err(|e| format!("re-decode: {e}"))?;
            if back != m {
                return Err("protocol message changed by encode/decode".into());
            }
            Ok(1)
        }
    }
}

pub fn t_author_heads(data: &[u8]) -> Result<u64, String> {
    match AuthorHeads::decode(data) {
        Err(_) => Ok(0),
        Ok(h) => {
            let enc = h.encode(None).map_err(|e| e.to_string())?;
            let back = AuthorHeads::decode(&enc).map_err(|e| format!("re-decode: {e}"))?;
            if back != h {
                return Err(format!("author heads changed by encode/decode: {} -> {} authors", h.len(), back.len()));
            }
            Ok(1)
        }
    }
}

fn ticket_roundtrip(t: &DocTicket) -> Result<(), String> {
    if t.nodes.is_empty() {
        return Err("a ticket without nodes was accepted".into());
    }
    let b = t.encode_bytes();
    let back = DocTicket::decode_bytes(&b).map_err(|e| format!("re-decode bytes: {e}"))?;
    if back.encode_bytes() != b {
        return Err("ticket changed by bytes encode/decode".into());
    }
    let s = t.to_string();
    let back = DocTicket::from_str(&s).map_err(|e| format!("re-decode string: {e}"))?;
    if back.encode_bytes() != b {
        return Err("ticket changed by string encode/decode".into());
    }
    Ok(())
}

pub fn t_ticket_bytes(data: &[u8]) -> Result<u64, String> {
    match DocTicket::decode_bytes(data) {
        Err(_) => Ok(0),
        Ok(t) => {
            ticket_roundtrip(&t)?;
            Ok(1)
        }
    }
}

pub fn t_ticket_str(data: &[u8]) -> Result<u64, String> {
    let Ok(s) = std::str::from_utf8(data) else { return Ok(0) };
    match DocTicket::from_str(s) {
        Err(_) => Ok(0),
        Ok(t) => {
            ticket_roundtrip(&t)?;
            Ok(1)
        }
    }
}

pub fn t_capability(data: &[u8]) -> Result<u64, String> {
    let mut n = 0;
    if let Ok(c) = postcard::from_bytes::<Capability>(data) {
        let enc = postcard::to_stdvec(&c).map_err(|e| e.to_string())?;
        let back: Capability = postcard::from_bytes(&enc).map_err(|e| format!("re-decode: {e}"))?;
        if back.raw() != c.raw() {
            return Err("capability changed by encode/decode".into());
        }
        n += 1;
    }
    if data.len() >= 33 {
        let bytes: [u8; 32] = data[1..33].try_into().unwrap();
        if let Ok(c) = Capability::from_raw(data[0], &bytes) {
            let (k, b) = c.raw();
            if k != data[0] {
                return Err(format!("from_raw({}) reports kind {k}", data[0]));
            }
            let again = Capability::from_raw(k, &b).map_err(|e| e.to_string())?;
            if again.raw() != (k, b) || again.id() != c.id() {
                return Err("capability raw form is not stable".into());
            }
            // a read capability is the id itself; a write capability is a secret whose id is derived
            if k == 2 && b != bytes {
                return Err("read capability bytes changed".into());
            }
            n += 1;
        } else if data[0] == 1 || data[0] == 2 {
            return Err(format!("from_raw rejected the valid kind {}", data[0]));
        }
    }
    Ok(n)
}

pub fn t_download_policy(data: &[u8]) -> Result<u64, String> {
    match postcard::from_bytes::<DownloadPolicy>(data) {
        Err(_) => Ok(0),
        Ok(p) => {
            let enc = postcard::to_stdvec(&p).map_err(|e| e.to_string())?;
            let back: DownloadPolicy = postcard::from_bytes(&enc).map_err(|e| format!("re-decode: {e}"))?;
            if back != p {
                return Err("download policy changed by encode/decode".into());
            }
            Ok(1)
        }
    }
}

pub fn t_filter_kind(data: &[u8]) -> Result<u64, String> {
    let Ok(s) = std::str::from_utf8(data) else { return Ok(0) };
    match FilterKind::from_str(s) {
        Err(_) => Ok(0),
        Ok(f) => {
            let back = FilterKind::from_str(&f.to_string()).map_err(|e| format!("display form does not parse: {e}"))?;
            if back != f {
                return Err(format!("filter {:?} displays as {:?} which parses to {:?}", f, f.to_string(), back));
            }
            Ok(1)
        }
    }
}
