//! Helpers around the store actor (`SyncHandle`).

use iroh_docs::{
    actor::SyncHandle,
    api::{protocol::ListResponse, RpcResult},
    store::{Query, Store},
    CapabilityKind, Event, NamespaceId, SignedEntry,
};

use crate::common::{es, R};

pub fn spawn(store: Store) -> SyncHandle {
    SyncHandle::spawn(store, None, "dv".to_string())
}

pub async fn get_many(h: &SyncHandle, ns: NamespaceId, q: Query) -> R<Vec<SignedEntry>> {
    let (tx, mut rx) = irpc::channel::mpsc::channel::<RpcResult<SignedEntry>>(64);
    es(h.get_many(ns, q, tx).await)?;
    let mut out = vec![];
    loop {
        match rx.recv().await {
            Ok(Some(Ok(e))) => out.push(e),
            Ok(Some(Err(e))) => return Err(format!("{e}")),
            Ok(None) => break,
            Err(e) => return Err(format!("recv: {e:?}")),
        }
    }
    Ok(out)
}

pub async fn dump(h: &SyncHandle, ns: NamespaceId) -> R<Vec<SignedEntry>> {
    get_many(h, ns, Query::all().include_empty().build()).await
}

pub async fn list_replicas(h: &SyncHandle) -> R<Vec<(NamespaceId, CapabilityKind)>> {
    let (tx, mut rx) = irpc::channel::mpsc::channel::<RpcResult<ListResponse>>(64);
    es(h.list_replicas(tx).await)?;
    let mut out = vec![];
    loop {
        match rx.recv().await {
            Ok(Some(Ok(e))) => out.push((e.id, e.capability)),
            Ok(Some(Err(e))) => return Err(format!("{e}")),
            Ok(None) => break,
            Err(e) => return Err(format!("recv: {e:?}")),
        }
    }
    Ok(out)
}

/// Drain everything currently queued on an event channel.
pub fn drain(rx: &async_channel::Receiver<Event>) -> Vec<Event> {
    let mut v = vec![];
    while let Ok(e) = rx.try_recv() {
        v.push(e);
    }
    v
}

pub fn kind_name(k: CapabilityKind) -> &'static str {
    match k {
        CapabilityKind::Write => "Write",
        CapabilityKind::Read => "Read",
    }
}
