#!/usr/bin/env bash
# libFuzzer campaign over the C09 decoder targets (thorough tier). Exit 0 = no crash, 1 = a crash that also
# reproduces through `dv replay` (release build, the same oracle), 2 = could not run (inconclusive).
# Stats are written to "$FUZZ/last-run.json" for the evidence file.
set -u
cd "$(dirname "$0")"
FUZZ="$(pwd -P)"
VERIF="$(dirname "$FUZZ")"
unset CARGO_TARGET_DIR
export CARGO_NET_OFFLINE=true
SEED="${VERIF_SEED:-1}"; [ "$SEED" = "0" ] && SEED=1
RUNS="${DV_FUZZ_RUNS:-3000000}"
WORK="$(mktemp -d /dev/shm/dv-fuzz.XXXXXX 2>/dev/null || mktemp -d)"
trap 'rm -rf "$WORK"' EXIT
mkdir -p "$WORK/corpus" "$WORK/artifacts"
"$VERIF/harness/target/release/dv" fuzz-seeds "$WORK/corpus" >/dev/null || { echo "fuzz: cannot write seeds" >&2; exit 2; }
if ! cargo +nightly fuzz build --fuzz-dir "$FUZZ" decoders >"$WORK/build.log" 2>&1; then
  tail -30 "$WORK/build.log" >&2
  echo "fuzz: build failed (inconclusive; the proptest byte generators of the quick tier still ran)" >&2
  echo '{"ran": false, "reason": "cargo fuzz build failed"}' > "$FUZZ/last-run.json"
  exit 2
fi
start=$(date +%s)
cargo +nightly fuzz run --fuzz-dir "$FUZZ" decoders "$WORK/corpus" -- \
   -runs="$RUNS" -seed="$SEED" -len_control=0 -max_len=2048 -artifact_prefix="$WORK/artifacts/" -print_final_stats=1 \
   >"$WORK/run.log" 2>&1
rc=$?
end=$(date +%s)
execs=$(grep -a "stat::number_of_executed_units" "$WORK/run.log" | awk '{print $2}' | tail -1)
corpus=$(ls "$WORK/corpus" | wc -l)
crash=$(ls "$WORK/artifacts" 2>/dev/null | head -1)
echo "fuzz: rc=$rc execs=${execs:-0} corpus=$corpus wall=$((end-start))s crash=${crash:-none}"
status=0
if [ -n "${crash:-}" ]; then
  mkdir -p "$VERIF/failures/C09"
  out="$VERIF/failures/C09/fuzz-$(basename "$crash").json"
  python3 - "$WORK/artifacts/$crash" "$out" <<'PY'
import sys, json
data = open(sys.argv[1], 'rb').read()
case = {"Hostile": {"target": (data[0] % 10) if data else 0, "valid_seed": None, "bytes": data[1:].hex(), "mutations": []}}
json.dump({"property": "C09", "note": "libFuzzer artifact", "case": case}, open(sys.argv[2], 'w'))
PY
  if "$VERIF/harness/target/release/dv" replay C09 "$out" | grep -q "^VIOLATION"; then
    tail -5 "$WORK/run.log"
    echo "VIOLATION property=C09 replay=$out"
    status=1
  else
    echo "fuzz: NOTE the crash reproduces only in the fuzz build (debug assertions on), not through the release oracle: $out"
  fi
elif [ $rc -ne 0 ]; then
  tail -20 "$WORK/run.log" >&2
  status=2
fi
printf '{"ran": true, "engine": "libFuzzer via cargo-fuzz", "runs_requested": %s, "executions": %s, "seed": %s, "final_corpus_files": %s, "wall_s": %s, "crash": "%s"}\n' \
  "$RUNS" "${execs:-0}" "$SEED" "$corpus" "$((end-start))" "${crash:-}" > "$FUZZ/last-run.json"
exit $status
