//! One libFuzzer entry for all decoder targets: the first byte selects the target, the rest is its
//! input. The semantic oracle (re-encoding round-trip) lives inside the target bodies, which are
//! shared with the proptest-driven C09 check (harness/src/targets.rs).
#![no_main]

#[path = "../../harness/src/targets.rs"]
mod targets;

use libfuzzer_sys::fuzz_target;

fuzz_target!(|data: &[u8]| {
    if data.is_empty() {
        return;
    }
    let name = targets::TARGETS[data[0] as usize % targets::TARGETS.len()];
    if let Err(e) = targets::run_target(name, &data[1..]) {
        panic!("C09 oracle violated in target {name}: {e}");
    }
});
